"""Registry of explorers (binaries) and checks (one per property). Imported by ./verif."""

BINS = {}
CHECKS = {}
ENGINES = []
NOT_APPLICABLE = []
NOTES = ("All checks are bounded-exhaustive explorations of the real libnop headers in /repo/include against "
         "independent reference models (see DESIGN.md). Exit 0/1/2 = held / violation / check broken. "
         "Known findings live in known_findings.json.")


def B(name, src, flavor="gcc", defs=(), ldflags=(), cflags=(), gen=False, deps=()):
    spec = dict(name=name, src=list(src if isinstance(src, (list, tuple)) else [src]), flavor=flavor,
                defs=list(defs), ldflags=list(ldflags), cflags=list(cflags), gen=gen, deps=list(deps))
    BINS[name] = spec
    return spec


def job(bin_, *args, **kw):
    d = dict(bin=bin_, args=[str(a) for a in args])
    d.update(kw)
    return d


def sharded(bin_, n, *args):
    return [job(bin_, *(list(args) + ["--shard", "%d/%d" % (i, n)])) for i in range(n)]


R_ASSUME = [
    "reference model rules R1-R9 of DESIGN.md section 4.3 (written from docs/format.md, not from the implementation)",
    "host: x86-64 little-endian, size_t == uint64_t, g++ 12 / clang 14 with libstdc++",
]

# ----------------------------------------------------------------------------------------------- C20
c20 = B("c20", "checks/c20_endian.cpp", "gcc")
c20_o0 = B("c20_o0", "checks/c20_endian.cpp", "gcc0")


def jobs_c20(tier):
    if tier == "quick":
        return [job(c20, "--tier", "quick")]
    return sharded(c20, 16, "--tier", "thorough") + [job(c20_o0, "--tier", "quick")]


CHECKS["C20"] = dict(
    engine="scalar-lab", level="exploration", jobs=jobs_c20,
    level_text="every conversion function of HostEndian<T> for every integral and floating-point T is run on an "
               "exhaustive (8/16-bit; 32-bit in the thorough tier) or lane-complete (64-bit: 8-value lane alphabet "
               "in every lane, every byte value walked through every lane, 2^k and 2^k+-1, NaN payloads) set of "
               "bit patterns and compared with an independent memcpy/byte-reversal oracle plus the To/From inverse law",
    level_note="trusts memcpy-based bit casting and the host-endianness probe of the harness; 64-bit types are "
               "lane-complete, not exhaustive; only this (little-endian) host is exercised",
    technique="bounded exhaustive enumeration of inputs against a reference model (stateless explicit-state)",
    rule="one case per (type, function, bit pattern); non-trivial = the pattern is not a byte palindrome (so identity "
         "and reversal differ); full 2^N sweeps are distinct by construction and counted directly, structured sets are "
         "deduplicated by hashing the case id",
    assumptions=R_ASSUME[1:],
    bounds=dict(quick="8/16-bit exhaustive; 32/64-bit lane alphabet^N + walks + boundaries; g++ -O1 build",
                thorough="8/16/32-bit exhaustive (int32, uint32, float: all 2^32 patterns); 64-bit lane-complete; plus the quick set on a g++ -O0 build"),
    floor=dict(evaluations=dict(quick=1000000, thorough=1000000000)),
)

ENGINES.append(dict(name="scalar-lab", path="checks/c20_endian.cpp, checks/c18_siphash.cpp",
                    serves_properties=["C18", "C20"],
                    kind_free_text="stateless exhaustive enumeration of scalar inputs against independent oracles"))


# ----------------------------------------------------------------------------------------------- codec-lab
WRAP = ["-Wl,--wrap=read,--wrap=write,--wrap=close"]
CODEC_DEPS = ["checks/codec_hostile.inc", "checks/codec_controls.inc"]
NQ, NT = 16, 32


def codec_bins(flavor, thorough):
    n = NT if thorough else NQ
    out = []
    for i in range(n):
        name = "codec_%s_%s%02d" % (flavor, "t" if thorough else "q", i)
        if name not in BINS:
            B(name, ["checks/codec.cpp", "harness/support.cpp"], flavor,
              defs=["SHARD=%d" % i, "NSHARDS=%d" % n] + (["THOROUGH"] if thorough else []), ldflags=WRAP, deps=CODEC_DEPS)
        out.append(BINS[name])
    return out


def codec_jobs(prop, flavors=("gcc",), san_extra=(), sub=1):
    def jobs(tier):
        js = []
        for fl in flavors:
            for k in range(sub):
                for b in codec_bins(fl, tier == "thorough"):
                    extra = list(san_extra) if (fl != "gcc" and tier == "quick") else []
                    if sub > 1:
                        extra += ["--sub", "%d/%d" % (k, sub)]
                    js.append(job(b, "--prop", prop, "--tier", tier, *extra))
        return js
    return jobs


# register every shard binary up front so that `verif replay` can find them by name
for _fl in ("gcc", "asan"):
    codec_bins(_fl, False)
    codec_bins(_fl, True)

CODEC_UNIVERSE = ("type universe of harness/universe.h: every leaf type, every type constructor over one representative "
                  "per element class, every ordered pair of directly nested constructors, and deeper spine samples "
                  "(quick ~430 types, thorough ~520); value domains of harness/domain.h (integer class boundaries, "
                  "2^k+-1, lane-distinct patterns, byte lengths on every length-prefix class boundary, containers of "
                  "0/1/2/3/127/128(/255/256) elements, empty/engaged Optional/Result/Variant/Entry, NaN payloads)")

CHECKS["C03"] = dict(
    engine="codec-lab", level="exploration", jobs=codec_jobs("C03"),
    level_text="for every type of the universe and every value of its domain the bytes produced by the real Serializer "
               "are compared byte for byte with an independent schema-directed encoder written from docs/format.md; "
               "the same object is written twice and must give identical bytes",
    level_note="trusts the reference encoder (harness/refcodec.h, rules R1-R9) and the bridges (harness/bridge.h) that "
               "map C++ objects to value trees without going through libnop; " + CODEC_UNIVERSE,
    technique="bounded exhaustive enumeration (type x value) against a reference model",
    rule="one case per (type, value); non-trivial = the encoding is longer than one byte; cases are de-duplicated by "
         "hashing the case id (values are already unique per type by their reference encoding)",
    assumptions=R_ASSUME + ["lengths between the enumerated boundaries behave like the boundaries of the same prefix class"],
    bounds=dict(quick="quick universe, composite products capped at 300 values per type (narrowing is deterministic)",
                thorough="thorough universe, cap 3000"),
    floor=dict(evaluations=dict(quick=5000, thorough=20000)),
)

CHECKS["C01"] = dict(
    engine="codec-lab", level="exploration", jobs=codec_jobs("C01"),
    level_text="for every type and value: written by each of 13 library writer rigs (Buffer, Pedantic, Constexpr, Stream, "
               "Fd, BoundedWriter over each, limit- and inner-constrained) and every distinct byte string produced is "
               "read back by each of 10 reader rigs (Buffer, Pedantic, Stream, Fd, BoundedReader over each with exact "
               "and huge limit); value equality (bit-exact floats, maps as sets), exact consumption, ordered pairs and "
               "whole-domain sequences on one stream; over-capacity logical buffers must be rejected",
    level_note="pairings that do not compile are omitted by capability (float on ConstexprBufferWriter, tables on Fd*); "
               "handle-bearing types are covered by C15; " + CODEC_UNIVERSE,
    technique="bounded exhaustive enumeration (type x value x writer x reader x sequence) against a reference model",
    rule="one case per (type, value-or-sequence label, writer, reader); non-trivial = more than one byte on the wire; "
         "distinct by case-id hash",
    assumptions=R_ASSUME,
    bounds=dict(quick="quick universe; sequences: all ordered pairs of <= 6 values per type + the whole domain on one stream",
                thorough="thorough universe"),
    floor=dict(evaluations=dict(quick=100000, thorough=500000)),
)

CHECKS["C05"] = dict(
    engine="codec-lab", level="fault_enumeration", jobs=codec_jobs("C05"),
    level_text="every strict prefix (every cut 0 <= k < len) of every enumerated valid encoding is fed to every library "
               "reader rig; any success is a violation",
    level_note="the reference encoder produces the valid encodings; table cross-version truncations (cuts inside skipped "
               "entries and padding) are explored by the table-lab part of this check; " + CODEC_UNIVERSE,
    technique="deviation-bounded exhaustive exploration (the cut point is the single deviation; all positions)",
    rule="one case per (type, value, reader rig, cut k); all tuples are distinct by construction; non-trivial = encoding "
         "longer than one byte",
    assumptions=R_ASSUME,
    bounds=dict(quick="quick universe without the 64 KiB boundary strings; every cut", thorough="thorough universe incl. 64 KiB strings; every cut"),
    floor=dict(evaluations=dict(quick=500000, thorough=2000000)),
)

CHECKS["C06"] = dict(
    engine="codec-lab", level="exploration", jobs=codec_jobs("C06", ("gcc", "asan"), san_extra=("--near",)),
    level_text="GetSize(v) against the reference encoding length (>=, and == without handles) and a sweep of every buffer "
               "capacity 0..GetSize+1 over BufferWriter, PedanticBufferWriter, ConstexprBufferWriter and BoundedWriter over "
               "each (limit- and inner-constrained): >= GetSize must succeed with exactly the reference bytes, smaller must "
               "return WriteLimitReached with zero bytes written and canaries / ASan redzones after the exact-size block intact",
    level_note="buffers are exact-size heap blocks from an opaque allocator; gcc build uses 64-byte canaries, clang build "
               "AddressSanitizer+UBSan with a report hook; capacities of encodings longer than 700 bytes are swept fully "
               "at both ends and with stride 61 in between; " + CODEC_UNIVERSE,
    technique="bounded exhaustive enumeration (type x value x capacity x writer) with sanitizer monitors",
    rule="one case per (type, value, writer rig, capacity) plus one GetSize case per (type, value); distinct by "
         "construction; non-trivial = encoding longer than one byte",
    assumptions=R_ASSUME,
    bounds=dict(quick="quick universe, every capacity 0..GetSize+1", thorough="thorough universe"),
    floor=dict(evaluations=dict(quick=500000, thorough=2000000)),
)

CHECKS["C10"] = dict(
    engine="codec-lab", level="fault_enumeration", jobs=codec_jobs("C10"),
    level_text="for every type and value the clean run's primitive-call sequence on a logging reader/writer is recorded, "
               "then the run is repeated once per call index k and error code e with call k answering e: the returned "
               "status must be e, no call may follow call k, a failed Prepare leaves zero bytes written",
    level_note="probe reader/writer (harness/rigs.h) implement the Reader/Writer concept incl. handle channel; tables put "
               "BoundedReader/Writer on the path; quick uses 7 representative error codes, thorough all 18; "
               + CODEC_UNIVERSE,
    technique="deviation-bounded exhaustive exploration (one injected I/O error at every primitive-call index)",
    rule="one case per (type, value, direction, call index, error code); distinct by construction",
    assumptions=R_ASSUME,
    bounds=dict(quick="depth-1 domains (<= 40 values per type), 7 error codes, every call index",
                thorough="full domains (<= 200 values per type), all 18 error codes"),
    floor=dict(evaluations=dict(quick=150000, thorough=600000)),
)

CHECKS["C11"] = dict(
    engine="codec-lab", level="model_checking", jobs=codec_jobs("C11"),
    level_text="explicit-state search over destination-object states: from a fresh object, every reachable state is "
               "expanded with assign(v), read(enc(v)), read failing at every primitive-call index and at every truncation "
               "point; after every successful read the object must equal the value read into a fresh object and the "
               "reader must sit exactly at the end; same history replayed twice must give the same state",
    level_note="state identity = canonical value tree of the object (maps sorted); 4 (quick) / 6 (thorough) values per "
               "type chosen to differ in size and emptiness; depth 3 / 4; " + CODEC_UNIVERSE,
    technique="explicit-state model checking of the implementation (BFS over operation histories replayed on fresh objects)",
    rule="states = distinct canonical destination states reached; transitions = operations executed on the real object",
    assumptions=R_ASSUME,
    bounds=dict(quick="depth 3, <= 600 states per type", thorough="depth 4, <= 4000 states per type"),
    floor=dict(transitions=dict(quick=100000, thorough=500000)),
)

CHECKS["C04"] = dict(
    engine="codec-lab", level="exploration", jobs=codec_jobs("C04", sub=3),
    level_text="accept/reject, decoded value and consumed length of the real Deserializer are compared with an independent "
               "schema-directed decoder on (a) every byte string of length <= 2 (<= 3 for scalar-like types in the thorough "
               "tier) for every destination type and (b) the closure of valid encodings under the mutation operators M1-M8 "
               "(every truncation, every byte x every value, every integer field re-encoded in every class of both "
               "signednesses, every length/count/id/index/hash/size field set to 14 boundary values, table entries "
               "duplicated/dropped/swapped/shrunk/grown with and without padding, trailing bytes); the error category is "
               "compared only for single local defects",
    level_note="readers: PedanticBufferReader, BufferReader, StreamReader<stringstream>, BoundedReader<Pedantic>; inflated "
               "declared lengths (> 1 MiB) are not fed to the unbounded StreamReader whose Ensure is a no-op by design; "
               "inputs with repeated map keys are compared on accept/consumed only (R5); " + CODEC_UNIVERSE,
    technique="bounded exhaustive enumeration of inputs (all short strings + mutation closure) against a reference decoder",
    rule="one case per (type, input, reader); inputs of the short-string sweep are distinct by construction, mutated inputs "
         "are distinct per (value, mutation descriptor); non-trivial = input longer than one byte",
    assumptions=R_ASSUME,
    bounds=dict(quick="all strings <= 2 bytes x all types; <= 24 depth-1 values per type; byte substitution on encodings <= 48 bytes",
                thorough="strings <= 3 bytes for scalar-like types; <= 200 values per type; byte substitution <= 96 bytes"),
    floor=dict(evaluations=dict(quick=20000000, thorough=100000000)),
)

CHECKS["C02"] = dict(
    engine="codec-lab", level="exploration", jobs=codec_jobs("C02", ("asan",), sub=4),
    level_text="the same hostile inputs (mutation closure M1-M8 incl. lengths inflated to 2^64-1, all 1-2 byte strings for "
               "scalar-like types) are read through every bounded reader rig (BufferReader, PedanticBufferReader, "
               "BoundedReader over buffer/pedantic/stream/fd readers with exact and huge limits) from an exact-size "
               "opaque heap block under AddressSanitizer+UBSan with a metered operator new: no sanitizer report, no "
               "exception, allocation bounded by 64*max(64,sizeof(T))*(len+16) and no single request above 1 MiB for "
               "inputs <= 4 KiB; afterwards the object is inspected (bool elements are loaded as bool), a valid encoding "
               "is read into it and must decode to its value, and it is destroyed",
    level_note="clang 14 -O1 -fsanitize=address,undefined with recover and report hooks; one forked process per type so a "
               "crash is attributed to the case being executed; structures tagged NOP_UNBOUNDED_BUFFER are excluded as "
               "the property states; " + CODEC_UNIVERSE,
    technique="bounded exhaustive enumeration of hostile inputs with sanitizer and allocation monitors",
    rule="one case per (type, input, bounded reader rig); distinct by construction (value index x mutation descriptor x rig)",
    assumptions=R_ASSUME + ["UBSan reports each source location once per process; processes are per type"],
    bounds=dict(quick="<= 8 depth-1 values per type; byte substitution on encodings <= 32 bytes on the two plain buffer readers; "
                      "structured mutations on all 8 bounded rigs",
                thorough="<= 24 values per type; byte substitution <= 64 bytes; all 1-2 byte strings for every type"),
    floor=dict(evaluations=dict(quick=3000000, thorough=10000000)),
)

ENGINES.append(dict(name="codec-lab", path="checks/codec.cpp + harness/",
                    serves_properties=["C01", "C02", "C03", "C04", "C05", "C06", "C10", "C11"],
                    kind_free_text="type-universe x value-domain explorer over the real Serializer/Deserializer and every "
                                   "library reader/writer, reference codec from docs/format.md, forked per type"))

# ----------------------------------------------------------------------------------------------- C18
c18 = B("c18", "checks/c18_siphash.cpp", "gcc")
c18_clang = B("c18_clang", "checks/c18_siphash.cpp", "asan")


def jobs_c18(tier):
    return [job(c18, "--tier", tier), job(c18_clang, "--tier", tier)]


CHECKS["C18"] = dict(
    engine="scalar-lab", level="exploration", jobs=jobs_c18,
    level_text="SipHash::Compute is compared with an independent SipHash-2-4 (checked against the paper's test vector) on "
               "every byte string of length <= 2, on six byte patterns (i, 0xff-i, 00, 7f, 80, ff) for every length 0..300 "
               "(0..1100 thorough) as uint8_t and as char arrays, under 133 keys (zero, all-ones, the library's table and "
               "interface keys, the reference key, all 128 one-bit keys); for 14 name literals (empty, lengths around the "
               "8-byte block boundary, > 255 bytes, UTF-8 and raw bytes >= 0x80) the constexpr value, the run-time value "
               "over laundered bytes and the reference are compared; EntryList::Hash, the hash field on the wire, "
               "interface hashes and 32/64-bit method selectors of declared tables/interfaces are recomputed independently",
    level_note="keys are taken from nop/table.h and nop/rpc/interface.h (the property says 'under the library's fixed keys'); "
               "'all 128-bit keys' is the structured 133-key set; g++ and clang builds",
    technique="bounded exhaustive enumeration of inputs against an independent reference implementation",
    rule="one case per (element type, message, key) and per declared name/table/interface/method; run-time cases are distinct "
         "by construction; non-trivial = non-empty message",
    assumptions=R_ASSUME[1:] + ["string literals are hashed including their terminating NUL, as the NOP_TABLE_NS / NOP_INTERFACE macros do"],
    bounds=dict(quick="all strings <= 2 bytes x 5 keys; lengths 0..300 x 6 patterns x 133 keys; 14 names; 6 tables; 2 interfaces",
                thorough="all strings <= 2 bytes x 133 keys; lengths 0..1100"),
    floor=dict(evaluations=dict(quick=1000000, thorough=10000000)),
)

# ----------------------------------------------------------------------------------------------- C16
c16 = B("c16", "checks/c16_bounded.cpp", "gcc")
c16_asan = B("c16_asan", "checks/c16_bounded.cpp", "asan")


def jobs_c16(tier):
    n = 8
    return sharded(c16, n, "--tier", tier) + ([job(c16_asan, "--tier", tier)] if tier == "thorough" else [])


CHECKS["C16"] = dict(
    engine="contract-lab", level="model_checking", jobs=jobs_c16,
    level_text="explicit-state search to fixpoint over (budget used, wrapped cursor, wrapped calls up to a scripted failure): "
               "every reachable state of BoundedReader/BoundedWriter over a logging inner reader/writer is expanded with "
               "every call of the alphabet (Ensure/Prepare, byte, ranges of width 1/2/4/8 x 0..3 elements, Skip, "
               "Read/WritePadding with sizes 0,1,2,3,rem-1,rem,rem+1,2^63,2^64-rem,2^64-1-rem,2^64-1 and a non-zero padding "
               "value) and compared with a two-counter reference model on status, the exact calls forwarded to the wrapped "
               "object, budget, delivered/written bytes and final position",
    level_note="limits {0,1,2,3,8,2^63,2^64-2,2^64-1}; wrapped source/capacity of limit-1, limit, limit+3 bytes; wrapped "
               "failure injected at call 0,1,2,4 or never; state abstraction is exact because Bounded* holds only "
               "(pointer,size,index) and the probe only (cursor, call count)",
    technique="explicit-state model checking of the implementation against a reference model (BFS with state hashing, fixpoint)",
    rule="states = distinct (used, inner cursor, capped inner call count) per configuration; transitions = calls executed "
         "on the real object and compared",
    assumptions=R_ASSUME[1:],
    bounds=dict(quick="120 reader + 120 writer configurations, fixpoint", thorough="165 + 165 configurations, plus an ASan build"),
    floor=dict(transitions=dict(quick=50000, thorough=80000)),
)
ENGINES.append(dict(name="contract-lab", path="checks/c16_bounded.cpp, checks/c17_contract.cpp",
                    serves_properties=["C16", "C17"],
                    kind_free_text="explicit-state search over primitive-call histories of readers/writers against cursor/vector reference models"))

# ----------------------------------------------------------------------------------------------- C17
c17 = B("c17", ["checks/c17_contract.cpp", "harness/support.cpp"], "gcc", ldflags=WRAP)
c17_asan = B("c17_asan", ["checks/c17_contract.cpp", "harness/support.cpp"], "asan", ldflags=WRAP)


def jobs_c17(tier):
    n = 10 if tier == "quick" else 16
    return sharded(c17, n, "--tier", tier) + sharded(c17_asan, n, "--tier", tier)


CHECKS["C17"] = dict(
    engine="contract-lab", level="model_checking", jobs=jobs_c17,
    level_text="explicit-state search to fixpoint over (cursor, previous call kind) for every reader rig (Buffer, Pedantic, "
               "Stream, Fd, BoundedReader over each with exact and huge limit) on sources of 0..9 distinct bytes and every "
               "writer rig (Buffer, Pedantic, Constexpr, Stream, Fd, BoundedWriter over them) with capacities 0..9: every "
               "call of the alphabet (byte, ranges of width 1/2/4/8 x 0..3, Skip and Ensure/Prepare with 0,1,2,rem-1,rem,"
               "rem+1,2^63,2^64-1, padding values) is compared with a cursor-over-vector / vector-with-capacity reference "
               "up to and including the first failing call; fd answers EINTR/EIO/EOF at every syscall index; ten literal "
               "objects serialized in a constant expression must equal their run-time serialization through five writers",
    level_note="BufferWriter is driven only by calls that fit (its documented contract: callers Prepare first); unbounded "
               "sinks are not asked to materialise more than 1 MiB of padding; gcc (canaries) and clang ASan+UBSan builds; "
               "fd rigs run on in-memory descriptors behind --wrap=read/write/close",
    technique="explicit-state model checking of the implementation against a reference model (BFS with state hashing, fixpoint)",
    rule="states = distinct (cursor, previous call kind) per rig and source length/capacity; transitions = calls executed on "
         "the real reader/writer and compared",
    assumptions=R_ASSUME[1:],
    bounds=dict(quick="source lengths / capacities 0..9, fixpoint", thorough="0..17"),
    floor=dict(transitions=dict(quick=100000, thorough=300000)),
)

# ----------------------------------------------------------------------------------------------- C12 / C13
c12 = B("c12", "checks/c12_variant.cpp", "gcc")
c12_asan = B("c12_asan", "checks/c12_variant.cpp", "asan")


def jobs_c12(tier):
    return [job(c12, "--tier", tier), job(c12_asan, "--tier", tier)]


CHECKS["C12"] = dict(
    engine="lifetime-lab", level="model_checking", jobs=jobs_c12,
    level_text="explicit-state search to fixpoint over three interacting variants (two Variant<TrA,TrB,Conv>, one "
               "Variant<TrA,TrB>; TrB's constructors can be armed to throw, Conv is constructible from a non-element type): "
               "every reachable (index,value)^3 state is expanded with every operation (element / converting / EmptyVariant "
               "assignment, copy and move assignment incl. self and cross-variant, Become(-2..7), destroy-and-reconstruct by "
               "copy/move/value/conversion/EmptyVariant, throwing assignment / copy / Become, observation); after each "
               "operation index and value are compared with an (index,value) reference model, Visit must call the visitor "
               "once with the active alternative (const and non-const), get<T>/get<I>/is<T>/empty must agree with index(), "
               "the lifetime registry must hold exactly one live element per non-empty variant, and after teardown none",
    level_note="element types register every construction/destruction by address (construct-over-live, double destroy, use "
               "of a dead object are violations); moved-from elements are 'alive, value unspecified' in the model; g++ "
               "and clang ASan+UBSan builds",
    technique="explicit-state model checking of the implementation against a reference model (BFS over operation histories replayed on fresh objects, fixpoint)",
    rule="states = distinct model states (index:value per variant) reached; transitions = operations executed on real variants and compared",
    assumptions=R_ASSUME[1:],
    bounds=dict(quick="fixpoint (values {1,2}; 3 variants)", thorough="same search on both builds"),
    floor=dict(transitions=dict(quick=20000, thorough=20000)),
)
ENGINES.append(dict(name="lifetime-lab", path="checks/c12_variant.cpp, checks/c13_optional.cpp, checks/c15_handles.cpp",
                    serves_properties=["C12", "C13", "C15"],
                    kind_free_text="explicit-state search over value-type operation histories with lifetime-tracking elements"))

c13 = B("c13", "checks/c13_optional.cpp", "gcc")
c13_asan = B("c13_asan", "checks/c13_optional.cpp", "asan")


def jobs_c13(tier):
    return [job(c13, "--tier", tier), job(c13_asan, "--tier", tier)]


CHECKS["C13"] = dict(
    engine="lifetime-lab", level="model_checking", jobs=jobs_c13,
    level_text="explicit-state search to fixpoint over {Optional<Tr> o1,o2; Entry<Tr,7> e; Optional<int> oi} and over "
               "{Result<E,Tr> r1,r2; Result<E,void> rv}: every reachable state is expanded with every operation (lvalue / "
               "rvalue / converting assignment, copy and move assignment incl. self and Optional<U>, clear, take, every "
               "constructor incl. InPlace and converting, value/error/None assignment) and compared with option / three-"
               "state-sum reference models (moved-from by assignment == empty); empty()/bool/has_value/has_error/error()/get "
               "must report the model state and the lifetime registry exactly one live value per engaged object, none after "
               "teardown. Plus: all 18 relational operators in four operand shapes x 16 operand-state pairs against the total "
               "order 'empty < every value', and GetErrorMessage for every ErrorStatus 0..18 and five out-of-range values",
    level_note="the state of the source of a move *construction* is left open by the property (emptied or moved-from value) "
               "and adopted from the implementation; g++ and clang ASan+UBSan builds",
    technique="explicit-state model checking of the implementation against a reference model (BFS, fixpoint) + exhaustive operand enumeration",
    rule="states = distinct model states reached in the two worlds; transitions = operations executed on real objects and "
         "compared; relational/message cases are distinct by construction",
    assumptions=R_ASSUME[1:],
    bounds=dict(quick="fixpoint (values {1,2}, errors {None,1,200})", thorough="same on both builds"),
    floor=dict(transitions=dict(quick=10000, thorough=10000)),
)

# ----------------------------------------------------------------------------------------------- C15
C15_SRC = ["checks/c15_handles.cpp", "harness/support.cpp"]
c15 = B("c15", C15_SRC, "gcc", ldflags=WRAP)
c15_tab = B("c15_tab", C15_SRC, "gcc", defs=["C15_TABLES"], ldflags=WRAP)
c15_asan = B("c15_asan", C15_SRC, "asan", ldflags=WRAP)
c15_tab_asan = B("c15_tab_asan", C15_SRC, "asan", defs=["C15_TABLES"], ldflags=WRAP)


def jobs_c10(tier):
    # the codec lab's rigs have no handle channel: handle-bearing types get their fault enumeration from the handle lab
    return codec_jobs("C10")(tier) + [job(c15, "--tier", tier, "--c10"), job(c15_tab, "--tier", tier, "--c10")]


def jobs_c15(tier):
    js = [job(c15, "--tier", tier), job(c15_tab, "--tier", tier)]
    if tier == "thorough":
        js += [job(c15_asan, "--tier", tier), job(c15_tab_asan, "--tier", tier)]
    return js


CHECKS["C10"]["jobs"] = jobs_c10


def _with_handle_lab(prop, flag):
    base = CHECKS[prop]["jobs"]
    CHECKS[prop]["jobs"] = lambda tier: base(tier) + [job(c15, "--tier", tier, flag), job(c15_tab, "--tier", tier, flag)]


_with_handle_lab("C03", "--c03")
_with_handle_lab("C06", "--c06")
CHECKS["C15"] = dict(
    engine="lifetime-lab", level="model_checking", jobs=jobs_c15, build_failure_is_violation=True,
    level_text="transport: for 20 handle-bearing types (handles as members, vector/array elements, Optional, Variant "
               "alternative, map value, Result value, table entries incl. nested tables and deleted neighbours) and every "
               "value of their domains (empty and valid handles), the value is written through a scripted probe writer once "
               "per (handle position x 14 boundary references from -2^63 to 2^63-1, also for empty handles): PushHandle "
               "must be called once per handle in encounter order, the bytes must equal the reference codec with exactly "
               "the returned references, GetSize must not under-estimate; reading back must call GetHandle once per handle "
               "with the encoded reference and yield the resolved handles (identity and offset resolution), a resolution "
               "error of four kinds at every handle position must come back unchanged and stop the read, a changed type tag "
               "must yield UnexpectedHandleType without resolving. ownership: explicit-state search over three "
               "UniqueHandle<CountingPolicy> slots (adopt, move-assign, move-construct incl. self, release, close, "
               "destroy) against an owner-map model: every resource is closed exactly once when its owner goes away, never "
               "when released or moved away, never twice",
    level_note="a handle-in-table type that does not compile is reported as a violation (documented shape not "
               "instantiable), through the driver's build-failure path; ownership search is keyed on (slots owning, last "
               "operation) and bounded to depth 5 (quick) / 6",
    technique="explicit-state model checking (ownership) + bounded exhaustive enumeration against a reference codec (transport)",
    rule="states = distinct (ownership pattern, last operation) keys; transitions = ownership operations executed; transport "
         "cases (type, value, reference script) are counted as evaluations, non-trivial when the value holds a handle",
    assumptions=R_ASSUME,
    bounds=dict(quick="13 + 7 types; <= 120 values per type; depth 5", thorough="<= 400 values per type; depth 6; ASan build"),
    floor=dict(transitions=dict(quick=3000, thorough=6000), evaluations=dict(quick=20000, thorough=40000)),
)


# ----------------------------------------------------------------------------------------------- table-lab (C07, C08, C05x)
NTL = 8


def tl_bins(flavor):
    out = []
    for i in range(NTL):
        name = "tablelab_%s_%02d" % (flavor, i)
        if name not in BINS:
            B(name, ["checks/tablelab.cpp", "harness/support.cpp"], flavor, defs=["SHARD=%d" % i, "NSHARDS=%d" % NTL],
              ldflags=WRAP, gen=True)
        out.append(BINS[name])
    return out


for _fl in ("gcc", "asan"):
    tl_bins(_fl)


NTLT = 16


def tl_bins_thorough():
    out = []
    for i in range(NTLT):
        name = "tablelab_ctxall_%02d" % i
        if name not in BINS:
            B(name, ["checks/tablelab.cpp", "harness/support.cpp"], "gcc", defs=["SHARD=%d" % i, "NSHARDS=%d" % NTLT, "CTX_ALL"],
              ldflags=WRAP, gen=True)
        out.append(BINS[name])
    return out


tl_bins_thorough()


def tl_jobs(prop):
    def jobs(tier):
        if tier == "thorough":
            # every version in every wrapping context (C07), plus the quick configuration under ASan/UBSan
            js = [job(b, "--prop", prop, "--tier", tier) for b in (tl_bins_thorough() if prop == "C07" else tl_bins("gcc"))]
            js += [job(b, "--prop", prop, "--tier", "quick" if prop == "C08" else tier) for b in tl_bins("asan")]
            return js
        return [job(b, "--prop", prop, "--tier", tier) for b in tl_bins("gcc")]
    return jobs


TL_NOTE = ("version graph from gen/tables.py: pool of 3 entries (id 0 string|W1<string>, id 128 vector<int32>|array<int32,2>, "
           "id 2^32+1 uint64|W1<uint64>), versions = ordered lists of (entry, active T | active twin | deleted), explored "
           "breadth-first over the evolution steps add / remove / mark deleted / swap adjacent / retype to the fungible twin "
           "to fixpoint: 226 versions (225 declarable C++ types + the empty table), 2187 edges")

CHECKS["C07"] = dict(
    engine="table-lab", level="model_checking", jobs=tl_jobs("C07"),
    level_text="explicit-state search over table-definition histories enumerates every reachable version; then EVERY ordered "
               "pair (writer version, reader version) x every assignment of {empty, value1, value2} to the writer's active "
               "entries is executed on the real code (225 x 225 x up to 27) through four readers (Pedantic, Buffer, Stream, "
               "BoundedReader) plus a pre-filled destination, and a subset of 21 versions additionally as struct member, "
               "vector element and entry of an outer table; a sentinel value follows on the same stream. Reference model: "
               "read succeeds, entries active on both sides carry the value across (compared through independent bridges), "
               "every other reader entry is empty, the sentinel is read next, the reader ends exactly at the end",
    level_note=TL_NOTE + "; writer bytes are additionally compared with the reference encoder; ids in the POS, U8 and U64 classes",
    technique="explicit-state model checking: BFS over schema-evolution histories (model) + every model pair replayed against the implementation",
    rule="states = table versions, transitions = evolution edges, traces_validated_against_impl = (writer, reader, assignment, "
         "context, reader rig) executions compared with the evolution model",
    assumptions=R_ASSUME,
    bounds=dict(quick="pool 3 (226 versions), all pairs, 4 readers, contexts on every 11th version", thorough="all pairs with EVERY version in all four wrapping contexts (225 x 225 x 4 contexts) + the quick configuration under ASan/UBSan"),
    floor=dict(traces_validated_against_impl=dict(quick=1500000, thorough=3000000)),
)

CHECKS["C08"] = dict(
    engine="table-lab", level="exploration", jobs=tl_jobs("C08"),
    level_text="encodings written by every 7th version (and all full-pool versions) with two value assignments are mutated "
               "(every entry duplicated / dropped / swapped with its neighbour, every declared size shrunk by 1..12 and grown "
               "by 1..3 with and without the padding bytes, the hash set to 17 values incl. high-bit flips, every integer "
               "field re-encoded in every class, every byte x every value for encodings <= 40 bytes, every truncation, "
               "trailing bytes) and read by the writer's own and every 5th other version through three readers; "
               "accept/reject, decoded entries, exact position after the table and - for single local defects, duplicates and "
               "shrunk sizes - the error category must equal an independent reference decoder (InvalidTableHash, "
               "DuplicateTableEntry for known active ids only, ReadLimitReached for a too-small frame, success with exact "
               "surplus skipping for a larger frame, any order accepted, an error inside an entry fails the whole read)",
    level_note=TL_NOTE,
    technique="bounded exhaustive enumeration of mutated table encodings against a reference decoder",
    rule="one case per (writer version, reader version, assignment, mutation, reader rig); distinct by construction",
    assumptions=R_ASSUME,
    bounds=dict(quick="~40 writer versions x ~8 reader versions per shard x 2 assignments", thorough="every 3rd writer version, 3 assignments, byte substitution <= 64 bytes; + ASan build"),
    floor=dict(evaluations=dict(quick=50000000, thorough=100000000)),
)
ENGINES.append(dict(name="table-lab", path="checks/tablelab.cpp, gen/tables.py",
                    serves_properties=["C05", "C07", "C08"],
                    kind_free_text="generated table-version graph (BFS over evolution steps), all version pairs executed on the real codec"))

# C05 also runs the cross-version truncation sweep of the table-lab
_c05_codec = CHECKS["C05"]["jobs"]
CHECKS["C05"]["jobs"] = lambda tier: _c05_codec(tier) + tl_jobs("C05")(tier)
CHECKS["C05"]["level_text"] += ("; plus, for every ordered pair (writer version, reader version) of the 225-version table graph with all "
                                "writer entries set, every cut - i.e. also inside entries the reader skips or has deleted and inside padding")

# ----------------------------------------------------------------------------------------------- C14
c14 = B("c14", "checks/c14_rpc.cpp", "gcc")
c14_pass = B("c14_pass", "checks/c14_rpc.cpp", "gcc", defs=["C14_PASSTHROUGH"])
c14_asan = B("c14_asan", "checks/c14_rpc.cpp", "asan")


def jobs_c14(tier):
    js = [job(c14, "--tier", tier), job(c14_pass, "--tier", tier)]
    if tier == "thorough":
        js.append(job(c14_asan, "--tier", tier))
    return js


CHECKS["C14"] = dict(
    engine="rpc-lab", level="model_checking", jobs=jobs_c14, build_failure_is_violation=True,
    level_text="single-threaded end-to-end loop (Invoke -> SimpleMethodSender -> request pipe -> InterfaceBindings + "
               "SimpleMethodReceiver on demand -> reply pipe -> Invoke's return) over three binding sets (lambdas + function "
               "pointer incl. a handler whose parameter is fungible with the declared one and conforming call arguments; "
               "method pointers with the instance as passthrough and a partial binding; 32-bit selectors 0/127/128/2^32-1 and "
               "a hashed one) plus handlers with leading passthrough parameters: ALL call sequences up to length 2 (3 "
               "thorough) over 24/14/10-call alphabets; after every call the handler log must hold exactly the selected "
               "handler once with equal arguments, Invoke must return the handler's value, both pipes must be empty. Every "
               "truncation, every byte x every value (requests <= 40 bytes) and unbound selectors of every recorded request "
               "are fed to the dispatcher and compared with an independent request decoder: InvalidInterfaceMethod for "
               "unbound selectors, a decode error otherwise, no handler entry, zero reply bytes",
    level_note="handlers are pure functions so the expected return is computed independently; sequences are enumerated "
               "without state merging (a hidden static would show as a second-call difference); binding shapes that the "
               "documentation allows but that do not compile are reported through the build-failure path",
    technique="explicit-state exploration of call sequences on the real dispatcher against a reference model",
    rule="states = call sequences executed on fresh connections; transitions = calls / bad requests executed and compared",
    assumptions=R_ASSUME,
    bounds=dict(quick="sequence length <= 2", thorough="sequence length <= 3, ASan build"),
    floor=dict(transitions=dict(quick=50000, thorough=100000)),
)
ENGINES.append(dict(name="rpc-lab", path="checks/c14_rpc.cpp", serves_properties=["C14"],
                    kind_free_text="in-process RPC loop over byte pipes; exhaustive call sequences and mutated requests"))

# ----------------------------------------------------------------------------------------------- C09
NC09 = 16
c09_bins = [B("c09_%02d" % i, ["checks/c09_fungible.cpp", "harness/support.cpp"], "gcc", defs=["SHARD=%d" % i, "NSHARDS=%d" % NC09],
              ldflags=WRAP) for i in range(NC09)]


def jobs_c09(tier):
    return [job(b, "--tier", tier) for b in c09_bins]


CHECKS["C09"] = dict(
    engine="fungible-lab", level="exploration", jobs=jobs_c09,
    level_text="IsFungible<A,B> is evaluated at compile time for every ordered pair of an 80-type universe (scalars, vectors / "
               "std::arrays / C arrays / tuples / pairs over integral, float, string, wrapper and structure elements, maps, "
               "logical buffers with u8/i8/i32/size_t size members as structures and as value wrappers, value wrappers incl. "
               "nested, internally and externally annotated structures, tables with fungible entries, Optional / Result / "
               "Variant): reflexivity, symmetry, agreement of Protocol<A>::Read/Write admission with the trait; for EVERY pair "
               "the trait declares fungible, every value of A's domain is written as A and - when docs/format.md says the "
               "bytes are a B (element counts fit) - must be read as B to the corresponding value, consume everything and "
               "re-encode to the same bytes; a true pair whose A encodings are not B encodings for a reason other than an "
               "element count is a violation; 18 documented pairs and function signatures must evaluate to true",
    level_note="the universe is fixed in checks/c09_fungible.cpp (a type list, all ordered pairs by template expansion); a pair "
               "for which the trait itself is ill-formed makes the binary fail to build (check broken, exit 2)",
    technique="bounded exhaustive enumeration (ordered type pairs x values) against a reference codec",
    rule="one case per ordered pair (symmetry) + one per (fungible pair, value of A); non-trivial = more than one byte on the wire; distinct by case id",
    assumptions=R_ASSUME,
    bounds=dict(quick="80 types, 6400 ordered pairs, <= 60 values per A", thorough="same"),
    floor=dict(evaluations=dict(quick=6000, thorough=6000)),
)
ENGINES.append(dict(name="fungible-lab", path="checks/c09_fungible.cpp", serves_properties=["C09"],
                    kind_free_text="compile-time trait matrix over all ordered type pairs + wire-compatibility runs for every true pair"))

# ----------------------------------------------------------------------------------------------- C19
WRAP_C19 = ["-Wl,--wrap=read,--wrap=write,--wrap=close,--wrap=signal,--wrap=sigaction"]
c19 = B("c19", "checks/c19_threads.cpp", "gcc", ldflags=WRAP_C19)
c19_tsan = B("c19_tsan", "checks/c19_threads.cpp", "tsan", ldflags=WRAP_C19)
c19_asan = B("c19_asan", "checks/c19_threads.cpp", "asan", ldflags=WRAP_C19)


def jobs_c19(tier):
    js = sharded(c19, 16, "--tier", tier) + [job(c19_tsan, "--tier", tier, "--free")]
    if tier == "thorough":
        js += sharded(c19_asan, 16, "--tier", "quick")
    return js


CHECKS["C19"] = dict(
    engine="sched-lab", level="model_checking", jobs=jobs_c19,
    level_text="stateless exploration under a cooperative scheduler: for every pair of eight bodies (struct round trip and table "
               "write/read through yielding reader/writer, Variant/Optional operations on elements whose constructors and "
               "destructors are scheduling points, one RPC call on a private connection through a lambda binding and one through a member-function binding whose handler is itself a scheduling point, two ThreadLocal scripts and one whose element constructor is itself a scheduling point, over shared "
               "(T,Slot) pairs) incl. each body against itself, and for the 3-thread set {tlsA,tlsA,tlsB}, EVERY schedule with "
               "at most 2 (3 thorough) preemptions is executed on real threads; after each execution every thread's "
               "observation log must equal the log of the same body run alone (values are thread-specific, so a value from "
               "another thread or slot, a lost first-initialisation or a torn element is visible) and the number of distinct "
               "combined outcomes per set must be 1. A recorded schedule is replayed and must make the same choices",
    level_note="yield points are harness-owned (every reader/writer primitive, element constructor/destructor, each ThreadLocal "
               "script step); library state touched only between two adjacent points cannot be exposed by a cooperative "
               "switch, so the same bodies also run free on 4 threads x 200 iterations under ThreadSanitizer (visibility "
               "pass, sampling, not the deciding step); memory-model effects are outside the scheduler",
    technique="stateless model checking: preemption-bounded exhaustive schedule exploration of the implementation (CHESS-style DFS)",
    rule="states = complete executions (explored schedules); transitions = scheduling points executed; evaluations = schedules",
    assumptions=R_ASSUME[1:] + ["schedules beyond the preemption bound are not explored"],
    bounds=dict(quick="37 thread sets, <= 2 preemptions, all schedules", thorough="25 sets, <= 3 preemptions (2 for 3-thread sets); ASan build of the quick bound"),
    floor=dict(schedules=dict(quick=5000, thorough=50000)),
)
ENGINES.append(dict(name="sched-lab", path="checks/c19_threads.cpp, harness/vsched.h", serves_properties=["C19"],
                    kind_free_text="preemption-bounded cooperative scheduler over harness-owned yield points + free-running TSan pass"))


# ----------------------------------------------------------------------------------------------- later additions
# Oracles and alphabets added while strengthening the checks against independently authored changes (DESIGN.md 13.5b).
def _more(prop, text, bounds_quick=None, bounds_thorough=None):
    if text:
        CHECKS[prop]["level_text"] += "; " + text
    if bounds_quick:
        CHECKS[prop]["bounds"]["quick"] = bounds_quick
    if bounds_thorough:
        CHECKS[prop]["bounds"]["thorough"] = bounds_thorough


_more("C01", "every ordered pair of consecutive values is also read into ONE reused destination object; the fd rigs are move-constructed "
             "into place, transfer at most 3 bytes per system call, and any read/write/close after close of a descriptor is a violation; "
             "gcc explorers are built with -O2 (libnop's own optimisation level)")
_more("C02", "truncations and field-value mutations are additionally read into two fresh objects after the stack was filled with two "
             "different patterns: the inspected destinations must agree (no never-initialised data left by a failed read)")
_more("C06", "the capacity sweep is repeated on a writer that already holds one copy of the value (remaining capacity c in a buffer "
             "of len + c bytes)")
_more("C08", "reader rigs: PedanticBufferReader, BufferReader, StreamReader, BoundedReader<PedanticBufferReader>; flat and nested context")
CHECKS["C09"]["level_text"] = CHECKS["C09"]["level_text"].replace("80-type universe", "90-type universe")
_more("C09", "", "90 types, 8100 ordered pairs, <= 60 values per A", "same")
_more("C10", "on the read side the failing block transfer first fills its destination range with 0xaa (a failed transfer may have "
             "stored anything); the status returned must still be the reader's")
_more("C11", "after every (history, operation) the destination object is destroyed and the number of blocks obtained from operator new "
             "and not returned must be what it was before the object was created (nothing leaked)")
_more("C12", "converting assignment SrcB -> TrB (a non-last alternative), plain and with the construction armed to throw")
_more("C13", "throw:* operations (assignment from a value / another object / Optional<int> with the next element construction armed "
             "to throw, before the element touches its storage); table Entry operands in the relational-operator matrix")
_more("C14", "calls with integral arguments whose width/signedness differs from the declared parameters, an lvalue argument for a "
             "by-value parameter (must stay with the caller), U64-encoded selectors 2^32 + bound selector for the 32-bit interface")
_more("C15", "tables build: nested tables whose padded (handle) entry is followed by further inner entries")
_more("C17", "fd answer enumeration: EINTR, EIO, 0 bytes, short transfers of 1 and n-1 bytes at every system call; the expectation "
             "depends only on whether the scripted answer was consumed; descriptor misuse (use or close after close) is a violation")
_more("C18", "names with embedded NUL bytes", "all strings <= 2 bytes x 5 keys; lengths 0..300 x 6 patterns x 133 keys; 17 names; 6 tables; 2 interfaces")
_more("C19", "three further bodies: `wide` (one value through every kind of encoding), `libio` (the library's own Stream/Buffer/Pedantic/"
             "Bounded readers and writers; stream-buffer virtual calls are scheduling points; per-thread padding bytes) and `tlsSlots` "
             "(every slot-tag form of the library; per-(T,Slot) independence); expectations the bodies state themselves are checked in "
             "the solo runs too",
      "43 thread sets (all pairs of the eight small bodies, wide/libio/tlsSlots with themselves and with the bodies they share code with, "
      "one 3-thread set), <= 2 preemptions, all schedules",
      "the same sets with <= 3 preemptions for the small bodies (2 for 3-thread sets and the large bodies); ASan build of the quick bound")
CHECKS["C20"]["bounds"]["quick"] = CHECKS["C20"]["bounds"]["quick"].replace("g++ -O1 build", "g++ -O2 build")

# ----------------------------------------------------------------------------------------------- round 9 (DESIGN.md 13.5b)
_more("C19", "body `fdio`: FdWriter/FdReader/Serializer<FdWriter>/Deserializer<FdReader> on a MODELLED kernel behind "
             "--wrap=read/write/close/signal/sigaction - descriptor numbers are handed out lowest-free-first (so a number closed by one "
             "object is given to the next open() of any thread), every system call is a scheduling point, the SIGPIPE disposition is "
             "process-wide and a write to a descriptor whose peer is gone raises SIGPIPE according to it; after every execution the "
             "disposition must be the application's handler again and no modelled descriptor may be left open",
      "45 thread sets (the earlier 43, fdio with itself and with libio), <= 2 preemptions, all schedules",
      "the same sets plus fdio x 3 with <= 3 preemptions for the small bodies (2 for 3-thread sets and the large bodies); ASan build of the quick bound")
_more("C16", "range reads/writes of bool elements over source bytes that are not 0/1 (what the bytes mean is the decoder's business; the "
             "wrapper counts what the wrapped reader consumed)")
_more("C13", "the error enum's None is not its zero enumerator, and the zero enumerator is an ordinary error code")
_more("C14", "re-entrant dispatch: a handler that causes the same bound method to be dispatched again on the same thread (nesting depth "
             "0..3 x 3 argument values x function pointer / lambda / member-function bindings); the outer handler's by-reference "
             "arguments are read after the nested dispatch returned")
_more("C15", "handle policies whose type tag type is 8 / 16 bits wide (a wider tag is not a valid encoding of the tag type: "
             "UnexpectedEncodingType; tags equal to the expected one modulo 2^8 / 2^16 / 2^32 are among the candidates)")
_more("C10", "handle-bearing types (26 types incl. table entries) get the same enumeration from the handle lab: every call of the probe "
             "writer/reader incl. PushHandle / GetHandle - for valid and for empty handles - fails in turn with every error code")
_more("C17", "a StreamWriter over a sink that accepts `capacity` characters and then refuses: the call that overruns the sink must fail "
             "with StreamError (Skip included), earlier output must be untouched; the search stops at the first failing call")
_more("C09", "tuples and Variants with five and six operands whose only difference is in the fifth / sixth position")
_more("C05", "the cross-version cuts are repeated in every wrapping context (struct member, vector element, entry of an enclosing "
             "table, LAST entry of an enclosing table) for the versions that have contexts")
_more("C06", "the three forms of Serializer (Writer*, std::unique_ptr<Writer>, Writer by value) take turns with the buffer capacity in "
             "the BufferWriter and PedanticBufferWriter rigs (Deserializer forms likewise in the buffer reader rigs; this applies to every "
             "codec-lab check)")
_more("C11", "the read step also goes through every library reader rig (the fd reader delivers at most 3 bytes per system call)")
_more("C04", "the FdReader rig (at most 3 bytes per read()) joins the mutation closure")
_more("C02", "after a failed read the object is read into with EVERY picked valid encoding in turn and the first one again "
             "(error -> value, value -> empty, long -> short ...), each compared with its value, sanitizer reports counted")
_more("C03", "value domains keep values that encode alike but differ in the state of a sum type (Optional<Optional<U>> engaged-but-empty, "
             "Result<E,Result<E,U>> value-holding-an-error); nested Results are in the universe (this applies to every codec-lab check)")
_more("C07", "a fifth reader: StreamReader over a forward-only stream (no seeking, no get area - a pipe, socket or filter stream)")
_more("C17", "reader side: StreamReader over a forward-only stream that cannot seek")
_more("C03", "handle-bearing types (26 types incl. nested table entries) are compared with the reference layout by the handle lab (--c03)")
_more("C06", "handle-bearing types get GetSize >= bytes, entry sizes vs. bytes, and the capacity sweep 0..GetSize+1 from the handle lab "
             "through a capacity-limited probe writer (--c06)")
