"""Registry of explorers (binaries) and checks (one per property). Imported by ./verif."""

BINS = {}
CHECKS = {}
ENGINES = []
NOT_APPLICABLE = []
NOTES = ("All checks are bounded-exhaustive explorations of the real libnop headers in /repo/include against "
         "independent reference models (see DESIGN.md). Exit 0/1/2 = held / violation / check broken. "
         "Known findings live in known_findings.json.")


def B(name, src, flavor="gcc", defs=(), ldflags=(), cflags=(), gen=False):
    spec = dict(name=name, src=list(src if isinstance(src, (list, tuple)) else [src]), flavor=flavor,
                defs=list(defs), ldflags=list(ldflags), cflags=list(cflags), gen=gen)
    BINS[name] = spec
    return spec


def job(bin_, *args, **kw):
    d = dict(bin=bin_, args=[str(a) for a in args])
    d.update(kw)
    return d


def sharded(bin_, n, *args):
    return [job(bin_, *(list(args) + ["--shard", "%d/%d" % (i, n)])) for i in range(n)]


R_ASSUME = [
    "reference model rules R1-R9 of DESIGN.md section 4.3 (written from docs/format.md, not from the implementation)",
    "host: x86-64 little-endian, size_t == uint64_t, g++ 12 / clang 14 with libstdc++",
]

# ----------------------------------------------------------------------------------------------- C20
c20 = B("c20", "checks/c20_endian.cpp", "gcc")
c20_o0 = B("c20_o0", "checks/c20_endian.cpp", "gcc0")


def jobs_c20(tier):
    if tier == "quick":
        return [job(c20, "--tier", "quick")]
    return sharded(c20, 16, "--tier", "thorough") + [job(c20_o0, "--tier", "quick")]


CHECKS["C20"] = dict(
    engine="scalar-lab", level="exploration", jobs=jobs_c20,
    level_text="every conversion function of HostEndian<T> for every integral and floating-point T is run on an "
               "exhaustive (8/16-bit; 32-bit in the thorough tier) or lane-complete (64-bit: 8-value lane alphabet "
               "in every lane, every byte value walked through every lane, 2^k and 2^k+-1, NaN payloads) set of "
               "bit patterns and compared with an independent memcpy/byte-reversal oracle plus the To/From inverse law",
    level_note="trusts memcpy-based bit casting and the host-endianness probe of the harness; 64-bit types are "
               "lane-complete, not exhaustive; only this (little-endian) host is exercised",
    technique="bounded exhaustive enumeration of inputs against a reference model (stateless explicit-state)",
    rule="one case per (type, function, bit pattern); non-trivial = the pattern is not a byte palindrome (so identity "
         "and reversal differ); full 2^N sweeps are distinct by construction and counted directly, structured sets are "
         "deduplicated by hashing the case id",
    assumptions=R_ASSUME[1:],
    bounds=dict(quick="8/16-bit exhaustive; 32/64-bit lane alphabet^N + walks + boundaries; g++ -O1 build",
                thorough="8/16/32-bit exhaustive (int32, uint32, float: all 2^32 patterns); 64-bit lane-complete; plus the quick set on a g++ -O0 build"),
    floor=dict(evaluations=dict(quick=1000000, thorough=1000000000)),
)

ENGINES.append(dict(name="scalar-lab", path="checks/c20_endian.cpp, checks/c18_siphash.cpp",
                    serves_properties=["C18", "C20"],
                    kind_free_text="stateless exhaustive enumeration of scalar inputs against independent oracles"))
