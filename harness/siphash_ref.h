// Independent SipHash-2-4 (Aumasson & Bernstein reference algorithm, 64-bit output), written from the paper.
#pragma once
#include <cstddef>
#include <cstdint>

namespace vf {

inline uint64_t rotl64(uint64_t x, int b) { return (x << b) | (x >> (64 - b)); }

inline uint64_t siphash24(const uint8_t* in, size_t inlen, uint64_t k0, uint64_t k1) {
  uint64_t v0 = 0x736f6d6570736575ULL ^ k0;
  uint64_t v1 = 0x646f72616e646f6dULL ^ k1;
  uint64_t v2 = 0x6c7967656e657261ULL ^ k0;
  uint64_t v3 = 0x7465646279746573ULL ^ k1;
  auto sipround = [&]() {
    v0 += v1; v1 = rotl64(v1, 13); v1 ^= v0; v0 = rotl64(v0, 32);
    v2 += v3; v3 = rotl64(v3, 16); v3 ^= v2;
    v0 += v3; v3 = rotl64(v3, 21); v3 ^= v0;
    v2 += v1; v1 = rotl64(v1, 17); v1 ^= v2; v2 = rotl64(v2, 32);
  };
  const size_t end = inlen - (inlen % 8);
  for (size_t i = 0; i < end; i += 8) {
    uint64_t m = 0;
    for (int j = 0; j < 8; j++) m |= (uint64_t)in[i + j] << (8 * j);
    v3 ^= m;
    sipround(); sipround();
    v0 ^= m;
  }
  uint64_t b = (uint64_t)inlen << 56;
  for (size_t j = 0; j < inlen % 8; j++) b |= (uint64_t)in[end + j] << (8 * j);
  v3 ^= b;
  sipround(); sipround();
  v0 ^= b;
  v2 ^= 0xff;
  sipround(); sipround(); sipround(); sipround();
  return v0 ^ v1 ^ v2 ^ v3;
}

// name including its terminating NUL, as a string literal is hashed by the NOP_TABLE_NS / NOP_INTERFACE macros
inline uint64_t siphash24_cstr(const char* s, uint64_t k0, uint64_t k1) {
  size_t n = 0;
  while (s[n]) n++;
  return siphash24(reinterpret_cast<const uint8_t*>(s), n + 1, k0, k1);
}

constexpr uint64_t kTableKey0 = 0xbaadf00ddeadbeefULL;
constexpr uint64_t kTableKey1 = 0x0123456789abcdefULL;
constexpr uint64_t kInterfaceKey0 = 0xdeadcafebaadf00dULL;
constexpr uint64_t kInterfaceKey1 = 0x0123456789abcdefULL;

}  // namespace vf
