// Reader / writer rigs: every library-provided reader and writer behind one small interface, plus the
// scripted, call-logging, fault-injecting probe reader/writer used for C10/C15/C16.
#pragma once
#include <istream>
#include <streambuf>
#include <cstring>
#include <memory>
#include <functional>
#include <fstream>
#include <iterator>
#include <sstream>
#include <unistd.h>
#include <string>
#include <vector>

#include <nop/serializer.h>
#include <nop/base/handle.h>
#include <nop/base/reference_wrapper.h>
#include <nop/base/table.h>
#include <nop/utility/bounded_reader.h>
#include <nop/utility/bounded_writer.h>
#include <nop/utility/buffer_reader.h>
#include <nop/utility/buffer_writer.h>
#include <nop/utility/constexpr_buffer_writer.h>
#include <nop/utility/fd_reader.h>
#include <nop/utility/fd_writer.h>
#include <nop/utility/pedantic_buffer_reader.h>
#include <nop/utility/pedantic_buffer_writer.h>
#include <nop/utility/stream_reader.h>
#include <nop/utility/stream_writer.h>

#include "support.h"

namespace vf {

using St = nop::Status<void>;
inline int ecode(const St& s) { return s ? 0 : (int)s.error(); }
inline const char* ename(int e) {
  static const char* n[] = {"None", "UnexpectedEncodingType", "UnexpectedHandleType", "UnexpectedVariantType",
                            "InvalidContainerLength", "InvalidMemberCount", "InvalidStringLength", "InvalidTableHash",
                            "InvalidHandleReference", "InvalidHandleValue", "InvalidInterfaceMethod", "DuplicateTableEntry",
                            "ReadLimitReached", "WriteLimitReached", "StreamError", "ProtocolError", "IOError", "SystemError",
                            "DebugError"};
  return (e >= 0 && e <= 18) ? n[e] : "?";
}

// capability bits of a type (compile time): what it needs from a reader/writer
enum : int { CapFloat = 1, CapSkip = 2 /* tables */, CapHandle = 4 };

// ================================================================ writers
// Interface: ctor(capacity), write(v) -> St, size() (bytes the writer reports), bytes(), intact() (canaries)
struct WBuf {
  static const char* name() { return "BufferWriter"; }
  static constexpr int lacks = CapHandle;
  static constexpr bool checked = false;  // relies on Prepare
  OpaqueBuf mem;
  nop::BufferWriter w;
  explicit WBuf(size_t cap) : mem(cap), w(mem.p, launder(cap)) {}
  // the three forms of Serializer (pointer, owning pointer, by value) take turns with the capacity; the owning and the
  // by-value form work on a copy of the writer (pointer, size, index) that is copied back after the call
  template <class T> St write(const T& v) {
    switch (mem.n % 3) {
      case 0: { nop::Serializer<nop::BufferWriter*> s{&w}; return s.Write(v); }
      case 1: {
        nop::Serializer<std::unique_ptr<nop::BufferWriter>> s{std::unique_ptr<nop::BufferWriter>(new nop::BufferWriter(w))};
        St st = s.Write(v);
        w = s.writer();
        return st;
      }
      default: { nop::Serializer<nop::BufferWriter> s{w}; St st = s.Write(v); w = s.writer(); return st; }
    }
  }
  template <class T> size_t getsize(const T& v) { nop::Serializer<nop::BufferWriter*> s{&w}; return s.GetSize(v); }
  size_t size() const { return w.size(); }
  std::vector<uint8_t> bytes() const { size_t n = std::min(w.size(), mem.n); return std::vector<uint8_t>(mem.p, mem.p + n); }
  bool intact() const { return mem.intact(); }
};
struct WPed {
  static const char* name() { return "PedanticBufferWriter"; }
  static constexpr int lacks = CapHandle;
  static constexpr bool checked = true;
  OpaqueBuf mem;
  nop::PedanticBufferWriter w;
  explicit WPed(size_t cap) : mem(cap), w(mem.p, launder(cap)) {}
  template <class T> St write(const T& v) {
    switch (mem.n % 3) {
      case 0: { nop::Serializer<nop::PedanticBufferWriter*> s{&w}; return s.Write(v); }
      case 1: { nop::Serializer<nop::PedanticBufferWriter> s{w}; St st = s.Write(v); w = s.writer(); return st; }
      default: {
        nop::Serializer<std::unique_ptr<nop::PedanticBufferWriter>> s{std::unique_ptr<nop::PedanticBufferWriter>(new nop::PedanticBufferWriter(w))};
        St st = s.Write(v);
        w = s.writer();
        return st;
      }
    }
  }
  size_t size() const { return w.size(); }
  std::vector<uint8_t> bytes() const { size_t n = std::min(w.size(), mem.n); return std::vector<uint8_t>(mem.p, mem.p + n); }
  bool intact() const { return mem.intact(); }
};
struct WCex {
  static const char* name() { return "ConstexprBufferWriter"; }
  static constexpr int lacks = CapHandle | CapFloat;
  static constexpr bool checked = true;
  OpaqueBuf mem;
  nop::ConstexprBufferWriter w;
  explicit WCex(size_t cap) : mem(cap), w(mem.p, launder(cap)) {}
  template <class T> St write(const T& v) { nop::Serializer<nop::ConstexprBufferWriter*> s{&w}; return s.Write(v); }
  size_t size() const { return w.size(); }
  std::vector<uint8_t> bytes() const { size_t n = std::min(w.size(), mem.n); return std::vector<uint8_t>(mem.p, mem.p + n); }
  bool intact() const { return mem.intact(); }
};
struct WStr {
  static const char* name() { return "StreamWriter<stringstream>"; }
  static constexpr int lacks = CapHandle;
  static constexpr bool checked = false;  // unbounded sink
  nop::StreamWriter<std::stringstream> w;
  explicit WStr(size_t) {}
  template <class T> St write(const T& v) { nop::Serializer<nop::StreamWriter<std::stringstream>*> s{&w}; return s.Write(v); }
  size_t size() const { return const_cast<WStr*>(this)->w.stream().str().size(); }
  std::vector<uint8_t> bytes() const { std::string s = const_cast<WStr*>(this)->w.stream().str(); return std::vector<uint8_t>(s.begin(), s.end()); }
  bool intact() const { return true; }
};
struct WFd {
  static const char* name() { return "FdWriter"; }
  static constexpr int lacks = CapHandle | CapSkip;
  static constexpr bool checked = false;
  int fd;
  nop::FdWriter w;
  // the writer reaches its place by move construction (as in Serializer<FdWriter>{FdWriter{fd}}); the moved-from object dies
  static nop::FdWriter make(int fd) { nop::FdWriter first(fd); nop::FdWriter second(std::move(first)); return second; }
  explicit WFd(size_t) : fd(fakefd_create()), w(make(fd)) { fakefd_get(fd)->chunk = 3; }  // the descriptor accepts at most 3 bytes per write()
  ~WFd() { w.Clear(); w.Clear(); fakefd_destroy(fd); }  // Clear is idempotent: the descriptor is closed exactly once (g_fd_misuse)
  template <class T> St write(const T& v) { nop::Serializer<nop::FdWriter*> s{&w}; return s.Write(v); }
  size_t size() const { return fakefd_get(fd)->data.size(); }
  std::vector<uint8_t> bytes() const { return fakefd_get(fd)->data; }
  bool intact() const { return true; }
};
// file streams (thorough tier): real files under $VERIF_ROOT/build/tmp; seeking and EOF behave differently from
// string streams (a seek past the end of a file succeeds)
inline std::string tmp_path(const char* tag) {
  static unsigned long counter = 0;
  const char* root = getenv("VERIF_ROOT");
  std::string dir = std::string(root ? root : ".") + "/build/tmp";
  static bool made = false;
  if (!made) { std::string cmd = "mkdir -p '" + dir + "'"; if (system(cmd.c_str())) {} made = true; }
  return dir + "/" + tag + "_" + std::to_string((long)getpid()) + "_" + std::to_string(counter++) + ".bin";
}
struct WFile {
  static const char* name() { return "StreamWriter<ofstream>"; }
  static constexpr int lacks = CapHandle;
  static constexpr bool checked = false;
  std::string path;
  nop::StreamWriter<std::ofstream> w;
  explicit WFile(size_t) : path(tmp_path("w")), w(path, std::ios::binary | std::ios::trunc) {}
  ~WFile() { w.stream().close(); remove(path.c_str()); }
  template <class T> St write(const T& v) { nop::Serializer<nop::StreamWriter<std::ofstream>*> s{&w}; return s.Write(v); }
  std::vector<uint8_t> slurp() const {
    const_cast<WFile*>(this)->w.stream().flush();
    std::ifstream in(path, std::ios::binary);
    return std::vector<uint8_t>((std::istreambuf_iterator<char>(in)), std::istreambuf_iterator<char>());
  }
  size_t size() const { return slurp().size(); }
  std::vector<uint8_t> bytes() const { return slurp(); }
  bool intact() const { return true; }
};
// BoundedWriter over an inner rig: limit = cap, inner buffer larger (so only the bound can refuse)
template <class Inner>
struct WBoundedLimit {
  static std::string name() { return std::string("BoundedWriter<") + Inner::name() + ">(limit=cap)"; }
  static constexpr int lacks = Inner::lacks;
  static constexpr bool checked = true;
  Inner inner;
  using IW = decltype(Inner::w);
  nop::BoundedWriter<IW> w;
  explicit WBoundedLimit(size_t cap) : inner(cap + 64), w(&inner.w, launder(cap)) {}
  template <class T> St write(const T& v) { nop::Serializer<nop::BoundedWriter<IW>*> s{&w}; return s.Write(v); }
  size_t size() const { return w.size(); }
  std::vector<uint8_t> bytes() const { auto b = inner.bytes(); return b; }
  bool intact() const { return inner.intact(); }
};
// BoundedWriter with a huge limit over an inner rig of exactly cap bytes (the inner writer must refuse)
template <class Inner>
struct WBoundedInner {
  static std::string name() { return std::string("BoundedWriter<") + Inner::name() + ">(inner=cap)"; }
  static constexpr int lacks = Inner::lacks;
  static constexpr bool checked = Inner::checked;
  Inner inner;
  using IW = decltype(Inner::w);
  nop::BoundedWriter<IW> w;
  explicit WBoundedInner(size_t cap) : inner(cap), w(&inner.w, launder(~(size_t)0 >> 1)) {}
  template <class T> St write(const T& v) { nop::Serializer<nop::BoundedWriter<IW>*> s{&w}; return s.Write(v); }
  size_t size() const { return w.size(); }
  std::vector<uint8_t> bytes() const { return inner.bytes(); }
  bool intact() const { return inner.intact(); }
};

// ================================================================ readers
// Interface: ctor(data,len), read(T*) -> St, consumed() (bytes taken from the source so far), name()
struct RBuf {
  static const char* name() { return "BufferReader"; }
  static const char* family() { return "buffer"; }
  static constexpr int lacks = CapHandle;
  OpaqueBuf mem;
  nop::BufferReader r;
  RBuf(const uint8_t* d, size_t n) : mem(d, n), r(mem.p, launder(n)) {}
  // the three forms of Deserializer take turns with the input length
  template <class T> St read(T* v) {
    switch (mem.n % 3) {
      case 0: { nop::Deserializer<nop::BufferReader*> s{&r}; return s.Read(v); }
      case 1: {
        nop::Deserializer<std::unique_ptr<nop::BufferReader>> s{std::unique_ptr<nop::BufferReader>(new nop::BufferReader(r))};
        St st = s.Read(v);
        r = s.reader();
        return st;
      }
      default: { nop::Deserializer<nop::BufferReader> s{r}; St st = s.Read(v); r = s.reader(); return st; }
    }
  }
  size_t consumed() const { return mem.n - r.remaining(); }
  static int trunc_error() { return (int)nop::ErrorStatus::ReadLimitReached; }
};
struct RPed {
  static const char* name() { return "PedanticBufferReader"; }
  static const char* family() { return "buffer"; }
  static constexpr int lacks = CapHandle;
  OpaqueBuf mem;
  nop::PedanticBufferReader r;
  RPed(const uint8_t* d, size_t n) : mem(d, n), r(mem.p, launder(n)) {}
  template <class T> St read(T* v) {
    switch (mem.n % 3) {
      case 0: { nop::Deserializer<nop::PedanticBufferReader*> s{&r}; return s.Read(v); }
      case 1: { nop::Deserializer<nop::PedanticBufferReader> s{r}; St st = s.Read(v); r = s.reader(); return st; }
      default: {
        nop::Deserializer<std::unique_ptr<nop::PedanticBufferReader>> s{std::unique_ptr<nop::PedanticBufferReader>(new nop::PedanticBufferReader(r))};
        St st = s.Read(v);
        r = s.reader();
        return st;
      }
    }
  }
  size_t consumed() const { return mem.n - r.remaining(); }
  static int trunc_error() { return (int)nop::ErrorStatus::ReadLimitReached; }
};
struct RStr {
  static const char* name() { return "StreamReader<stringstream>"; }
  static const char* family() { return "stream"; }
  static constexpr int lacks = CapHandle;
  nop::StreamReader<std::stringstream> r;
  size_t len;
  RStr(const uint8_t* d, size_t n) : r(std::string(reinterpret_cast<const char*>(d), n)), len(n) {}
  template <class T> St read(T* v) { nop::Deserializer<nop::StreamReader<std::stringstream>*> s{&r}; return s.Read(v); }
  size_t consumed() {
    auto& st = r.stream();
    if (!st.good()) { st.clear(); }
    std::streamoff p = st.tellg();
    return p < 0 ? len : (size_t)p;
  }
  static int trunc_error() { return (int)nop::ErrorStatus::StreamError; }
};
// a forward-only source behind an istream (a pipe, a socket, a decompressing filter): no seeking, no get area; the StreamReader
// can only consume what it reads
struct FwdBuf : std::streambuf {
  std::string data;
  size_t pos = 0;
  int_type underflow() override { return pos < data.size() ? traits_type::to_int_type(data[pos]) : traits_type::eof(); }
  int_type uflow() override { return pos < data.size() ? traits_type::to_int_type(data[pos++]) : traits_type::eof(); }
  std::streamsize xsgetn(char* p, std::streamsize n) override {
    const size_t k = std::min<size_t>((size_t)n, data.size() - pos);
    if (k) memcpy(p, data.data() + pos, k);
    pos += k;
    return (std::streamsize)k;
  }
};
struct FwdIStream : std::istream {
  FwdBuf buf;
  explicit FwdIStream(const std::string& s) : std::istream(&buf) { buf.data = s; }
};
struct RStrFwd {
  static const char* name() { return "StreamReader<forward-only stream>"; }
  static const char* family() { return "stream"; }
  static constexpr int lacks = CapHandle;
  nop::StreamReader<FwdIStream> r;
  RStrFwd(const uint8_t* d, size_t n) : r(std::string(reinterpret_cast<const char*>(d), n)) {}
  template <class T> St read(T* v) { nop::Deserializer<nop::StreamReader<FwdIStream>*> s{&r}; return s.Read(v); }
  size_t consumed() { return r.stream().buf.pos; }
  static int trunc_error() { return (int)nop::ErrorStatus::StreamError; }
};
struct RFile {
  static const char* name() { return "StreamReader<ifstream>"; }
  static const char* family() { return "stream"; }
  static constexpr int lacks = CapHandle;
  std::string path;
  struct Prep {
    Prep(const std::string& p, const uint8_t* d, size_t n) {
      std::ofstream out(p, std::ios::binary | std::ios::trunc);
      if (n) out.write(reinterpret_cast<const char*>(d), (std::streamsize)n);
    }
  } prep;
  nop::StreamReader<std::ifstream> r;
  size_t len;
  RFile(const uint8_t* d, size_t n) : path(tmp_path("r")), prep(path, d, n), r(path, std::ios::binary), len(n) {}
  ~RFile() { r.stream().close(); remove(path.c_str()); }
  template <class T> St read(T* v) { nop::Deserializer<nop::StreamReader<std::ifstream>*> s{&r}; return s.Read(v); }
  size_t consumed() {
    auto& st = r.stream();
    if (!st.good()) st.clear();
    std::streamoff p = st.tellg();
    return p < 0 ? len : (size_t)p;
  }
  static int trunc_error() { return (int)nop::ErrorStatus::StreamError; }
};
struct RFd {
  static const char* name() { return "FdReader"; }
  static const char* family() { return "fd"; }
  static constexpr int lacks = CapHandle | CapSkip;
  int fd;
  nop::FdReader r;
  static nop::FdReader make(int fd) { nop::FdReader first(fd); nop::FdReader second(std::move(first)); return second; }
  RFd(const uint8_t* d, size_t n) : fd(fakefd_create(d, n)), r(make(fd)) { fakefd_get(fd)->chunk = 3; }  // at most 3 bytes per read(), as a pipe may
  ~RFd() { r.Clear(); r.Clear(); fakefd_destroy(fd); }
  template <class T> St read(T* v) { nop::Deserializer<nop::FdReader*> s{&r}; return s.Read(v); }
  size_t consumed() const { return fakefd_get(fd)->rpos; }
  static int trunc_error() { return (int)nop::ErrorStatus::ReadLimitReached; }
};
template <class Inner, bool HugeLimit = false>
struct RBounded {
  static std::string name() { return std::string("BoundedReader<") + Inner::name() + (HugeLimit ? ">(limit=max)" : ">(limit=len)"); }
  static const char* family() { return Inner::family(); }
  static constexpr int lacks = Inner::lacks;
  Inner inner;
  using IR = decltype(Inner::r);
  nop::BoundedReader<IR> r;
  RBounded(const uint8_t* d, size_t n) : inner(d, n), r(&inner.r, launder(HugeLimit ? ~(size_t)0 : n)) {}
  template <class T> St read(T* v) { nop::Deserializer<nop::BoundedReader<IR>*> s{&r}; return s.Read(v); }
  size_t consumed() { return inner.consumed(); }
  // the bound equals the input length, so running out of input is reported by the bound first
  static int trunc_error() { return HugeLimit ? Inner::trunc_error() : (int)nop::ErrorStatus::ReadLimitReached; }
};

// ================================================================ probe writer / reader (scripted, logging)
struct Call {
  char op;        // 'P' Prepare, 'B' Write(byte), 'W' Write(range), 'S' Skip, 'H' PushHandle | 'E' Ensure, 'b' Read(byte), 'R' Read(range), 's' Skip, 'G' GetHandle
  uint64_t a, b;  // size / element size,count / handle value
};
struct ProbeWriter {
  std::vector<uint8_t> out;
  std::vector<Call> log;
  long fail_at = -1;  // call index to fail
  int fail_with = 0;
  size_t capacity = ~(size_t)0;
  std::vector<int64_t> handles;           // handle values pushed, in order
  std::vector<int64_t> ref_script;        // references to answer with (default: encounter index, -1 for invalid)
  bool failed = false;
  long calls_after_failure = 0;
  bool hit() {
    if (failed) calls_after_failure++;
    if ((long)log.size() - 1 == fail_at) { failed = true; return true; }
    return false;
  }
  St Prepare(std::size_t size) {
    log.push_back({'P', size, 0});
    if (hit()) return (nop::ErrorStatus)fail_with;
    if (size > capacity - out.size()) return nop::ErrorStatus::WriteLimitReached;
    return {};
  }
  St Write(std::uint8_t byte) {
    log.push_back({'B', byte, 0});
    if (hit()) return (nop::ErrorStatus)fail_with;
    if (out.size() >= capacity) return nop::ErrorStatus::WriteLimitReached;
    out.push_back(byte);
    return {};
  }
  template <typename T, typename Enable = nop::EnableIfArithmetic<T>>
  St Write(const T* begin, const T* end) {
    size_t n = (size_t)(end - begin) * sizeof(T);
    log.push_back({'W', sizeof(T), (uint64_t)(end - begin)});
    if (hit()) return (nop::ErrorStatus)fail_with;
    if (n > capacity - out.size()) return nop::ErrorStatus::WriteLimitReached;
    const uint8_t* p = reinterpret_cast<const uint8_t*>(begin);
    out.insert(out.end(), p, p + n);
    return {};
  }
  St Skip(std::size_t padding_bytes, std::uint8_t padding_value = 0x00) {
    log.push_back({'S', padding_bytes, padding_value});
    if (hit()) return (nop::ErrorStatus)fail_with;
    if (padding_bytes > capacity - out.size()) return nop::ErrorStatus::WriteLimitReached;
    out.insert(out.end(), padding_bytes, padding_value);
    return {};
  }
  template <typename HandleType>
  nop::Status<nop::HandleReference> PushHandle(const HandleType& handle) {
    int64_t hv = (int64_t)handle.get();
    log.push_back({'H', (uint64_t)hv, 0});
    if (hit()) return (nop::ErrorStatus)fail_with;
    size_t i = handles.size();
    handles.push_back(hv);
    if (i < ref_script.size()) return ref_script[i];
    if (!handle) return nop::kEmptyHandleReference;
    return (nop::HandleReference)i;
  }
};

struct ProbeReader {
  const uint8_t* p = nullptr;
  size_t n = 0, pos = 0;
  std::vector<Call> log;
  long fail_at = -1;
  int fail_with = 0;
  bool failed = false;
  bool scribble_on_failure = false;  // C10: the failing block transfer leaves 0xaa bytes in its destination range
  long calls_after_failure = 0;
  std::vector<int64_t> refs;               // references resolved, in order
  // reference -> handle value (default identity); resolve_fail_ref: reference that fails with resolve_error
  int64_t resolve_fail_ref = 0;
  bool resolve_fail_enabled = false;
  int resolve_error = (int)nop::ErrorStatus::InvalidHandleReference;
  int64_t resolve_offset = 0;
  ProbeReader(const uint8_t* d, size_t len) : p(d), n(len) {}
  bool hit() {
    if (failed) calls_after_failure++;
    if ((long)log.size() - 1 == fail_at) { failed = true; return true; }
    return false;
  }
  St Ensure(std::size_t size) {
    log.push_back({'E', size, 0});
    if (hit()) return (nop::ErrorStatus)fail_with;
    if (size > n - pos) return nop::ErrorStatus::ReadLimitReached;
    return {};
  }
  St Read(std::uint8_t* byte) {
    log.push_back({'b', 0, 0});
    if (hit()) return (nop::ErrorStatus)fail_with;
    if (pos >= n) return nop::ErrorStatus::ReadLimitReached;
    *byte = p[pos++];
    return {};
  }
  template <typename T, typename Enable = nop::EnableIfArithmetic<T>>
  St Read(T* begin, T* end) {
    size_t k = (size_t)(end - begin) * sizeof(T);
    log.push_back({'R', sizeof(T), (uint64_t)(end - begin)});
    if (hit()) {
      // a transfer that fails may have stored anything in the range it was given (a short read followed by an error)
      if (scribble_on_failure && k) memset(static_cast<void*>(begin), 0xaa, k);
      return (nop::ErrorStatus)fail_with;
    }
    if (k > n - pos) return nop::ErrorStatus::ReadLimitReached;
    if (k) memcpy(begin, p + pos, k);
    pos += k;
    return {};
  }
  St Skip(std::size_t padding_bytes) {
    log.push_back({'s', padding_bytes, 0});
    if (hit()) return (nop::ErrorStatus)fail_with;
    if (padding_bytes > n - pos) return nop::ErrorStatus::ReadLimitReached;
    pos += padding_bytes;
    return {};
  }
  template <typename HandleType>
  nop::Status<HandleType> GetHandle(nop::HandleReference ref) {
    log.push_back({'G', (uint64_t)ref, 0});
    if (hit()) return (nop::ErrorStatus)fail_with;
    refs.push_back(ref);
    if (resolve_fail_enabled && ref == resolve_fail_ref) return (nop::ErrorStatus)resolve_error;
    if (ref < 0) return HandleType{};
    return HandleType{(typename HandleType::Type)(ref + resolve_offset)};
  }
};

struct WProbe {
  static const char* name() { return "ProbeWriter"; }
  static constexpr int lacks = 0;
  static constexpr bool checked = true;
  ProbeWriter w;
  explicit WProbe(size_t cap) { w.capacity = cap; }
  template <class T> St write(const T& v) { nop::Serializer<ProbeWriter*> s{&w}; return s.Write(v); }
  size_t size() const { return w.out.size(); }
  std::vector<uint8_t> bytes() const { return w.out; }
  bool intact() const { return true; }
};
struct RProbe {
  static const char* name() { return "ProbeReader"; }
  static const char* family() { return "buffer"; }
  static constexpr int lacks = 0;
  std::vector<uint8_t> copy;
  ProbeReader r;
  RProbe(const uint8_t* d, size_t n) : copy(d, d + n), r(copy.data(), n) {}
  template <class T> St read(T* v) { nop::Deserializer<ProbeReader*> s{&r}; return s.Read(v); }
  size_t consumed() const { return r.pos; }
  static int trunc_error() { return (int)nop::ErrorStatus::ReadLimitReached; }
};

}  // namespace vf
