// Preemption-bounded cooperative scheduler (DESIGN.md 4.7): real threads, exactly one runnable at a time,
// hand-off at harness-owned yield points; depth-first exploration of all schedules with at most P preemptions.
#pragma once
#include <condition_variable>
#include <cstdio>
#include <cstdlib>
#include <functional>
#include <mutex>
#include <string>
#include <thread>
#include <vector>

namespace vf {

struct SchedPoint { int nenabled; bool running_enabled; };

class Sched {
 public:
  bool active = false;
  std::vector<int> choices;
  std::vector<SchedPoint> points;
  bool diverged = false;

  static Sched& get() {
    static Sched s;
    return s;
  }
  static int& tid() {
    static thread_local int t = -1;
    return t;
  }
  // scheduling point of the calling thread
  void yield() {
    if (!active) return;
    const int me = tid();
    if (me < 0) return;
    std::unique_lock<std::mutex> l(m_);
    int next = decide(me);
    if (next != me) {
      current_ = next;
      cv_.notify_all();
      cv_.wait(l, [&] { return current_ == me; });
    }
  }
  void run(const std::vector<int>& prefix, const std::vector<std::function<void()>>& bodies) {
    prefix_ = prefix;
    choices.clear();
    points.clear();
    diverged = false;
    state_.assign(bodies.size(), 0);
    current_ = -1;
    active = true;
    std::vector<std::thread> th;
    for (int i = 0; i < (int)bodies.size(); i++)
      th.emplace_back([this, i, &bodies] {
        tid() = i;
        {
          std::unique_lock<std::mutex> l(m_);
          cv_.wait(l, [&] { return current_ == i; });
        }
        bodies[i]();
        {
          std::unique_lock<std::mutex> l(m_);
          state_[i] = 1;
          current_ = decide(i);
          cv_.notify_all();
        }
        tid() = -1;
      });
    {
      std::unique_lock<std::mutex> l(m_);
      current_ = decide(-1);
      cv_.notify_all();
    }
    for (auto& t : th) t.join();
    active = false;
  }

 private:
  std::mutex m_;
  std::condition_variable cv_;
  int current_ = -1;
  std::vector<int> state_;  // 0 runnable, 1 finished
  std::vector<int> prefix_;

  std::vector<int> enabled(int running) {
    std::vector<int> e;
    if (running >= 0 && state_[running] == 0) e.push_back(running);  // canonical order: the running thread first
    for (int i = 0; i < (int)state_.size(); i++)
      if (i != running && state_[i] == 0) e.push_back(i);
    return e;
  }
  int decide(int running) {  // lock held
    std::vector<int> e = enabled(running);
    if (e.empty()) return -1;
    size_t pos = choices.size();
    int c = pos < prefix_.size() ? prefix_[pos] : 0;
    if (c >= (int)e.size()) {  // replaying a prefix must never diverge
      diverged = true;
      c = 0;
    }
    choices.push_back(c);
    points.push_back({(int)e.size(), running >= 0 && state_[running] == 0});
    return e[c];
  }
};

inline void sched_yield_point() { Sched::get().yield(); }

struct ExploreStats { long schedules = 0, max_points = 0; bool diverged = false; };

// explore every schedule with at most `bound` preemptions; after each complete execution call check(choices)
inline void explore_schedules(const std::vector<std::function<void()>>& bodies, int bound, const std::function<void()>& reset,
                              const std::function<void(const std::vector<int>&)>& check, ExploreStats* st, long max_schedules = 2000000) {
  Sched& S = Sched::get();
  std::function<void(const std::vector<int>&)> rec = [&](const std::vector<int>& prefix) {
    if (st->schedules >= max_schedules) return;
    reset();
    S.run(prefix, bodies);
    st->schedules++;
    std::vector<int> ch = S.choices;
    std::vector<SchedPoint> pts = S.points;
    if (S.diverged) st->diverged = true;
    if ((long)pts.size() > st->max_points) st->max_points = (long)pts.size();
    check(ch);
    std::vector<int> costs(ch.size());
    int cost = 0;
    for (size_t i = 0; i < ch.size(); i++) {
      costs[i] = cost;
      if (pts[i].running_enabled && ch[i] != 0) cost++;
    }
    for (size_t i = prefix.size(); i < ch.size(); i++)
      for (int alt = 1; alt < pts[i].nenabled; alt++) {
        int c = costs[i] + (pts[i].running_enabled ? 1 : 0);
        if (c > bound) continue;
        std::vector<int> np(ch.begin(), ch.begin() + i);
        np.push_back(alt);
        rec(np);
      }
  };
  rec({});
}

}  // namespace vf
