// User-defined type constructors of the universe (annotated structures, logical buffers, value wrappers,
// tables) as templates, with their bridges. Also the enum leaves.
#pragma once
#include <array>
#include <limits>

#include <nop/base/encoding.h>
#include <nop/structure.h>
#include <nop/table.h>
#include <nop/value.h>

#include "bridge.h"
#include "siphash_ref.h"

namespace vt {

// ---------------------------------------------------------------- enums over five underlying types
enum EU8 : std::uint8_t { EU8_A = 0, EU8_B = 1, EU8_C = 127, EU8_D = 128, EU8_E = 255 };
enum EI16 : std::int16_t { EI16_A = 0, EI16_B = -1, EI16_C = -129, EI16_D = 300, EI16_E = 32767 };
enum EU32 : std::uint32_t { EU32_A = 0, EU32_B = 65536, EU32_C = 0xffffffffu };
enum class EI64 : std::int64_t { A = 0, B = -5000000000LL, C = 5000000000LL, D = INT64_MIN };
enum class EU64 : std::uint64_t { A = 0, B = 1ULL << 40, C = ~0ULL };
enum class Err : std::int32_t { None = 0, A = 1, B = 200, C = -70000 };
enum class ErrU8 : std::uint8_t { None = 0, A = 3, B = 250 };

// ---------------------------------------------------------------- annotated structures
template <class A>
struct S1 {
  A a;
  NOP_STRUCTURE(S1, a);
};
template <class A, class B>
struct S2 {
  A a;
  B b;
  NOP_STRUCTURE(S2, a, b);
};
template <class A, class B, class C>
struct S3 {
  A a;
  B b;
  C c;
  NOP_STRUCTURE(S3, a, b, c);
};
// externally annotated (template form)
template <class A, class B>
struct X2 {
  A a;
  B b;
};
NOP_EXTERNAL_STRUCTURE(X2, a, b);
// externally annotated (plain form)
struct XP {
  std::int32_t a;
  std::string b;
};
NOP_EXTERNAL_STRUCTURE(XP, a, b);

// ---------------------------------------------------------------- logical buffers
template <class E, std::size_t N, class S>
struct LBC {  // C array + size member
  E data[N];
  S count;
  NOP_STRUCTURE(LBC, (data, count));
};
template <class E, std::size_t N, class S>
struct LBA {  // std::array + size member
  std::array<E, N> data;
  S count;
  NOP_STRUCTURE(LBA, (data, count));
};
template <class E, std::size_t N, class S>
struct LBM {  // logical buffer between two ordinary members (framing)
  std::int32_t pre;
  E data[N];
  S count;
  std::uint8_t post;
  NOP_STRUCTURE(LBM, pre, (data, count), post);
};
// unbounded logical buffer (the C "dynamically sized trailing array" idiom): array of length 1 at the end of the
// structure, capacity vouched for by the caller (the harness allocates kUnboundedCap elements behind it)
constexpr std::size_t kUnboundedCap = 40;
template <class E>
struct UB {
  std::size_t size;
  E data[1];
  NOP_STRUCTURE(UB, (data, size));
  NOP_UNBOUNDED_BUFFER(UB);
};
// ---------------------------------------------------------------- value wrappers
template <class A>
struct W1 {
  A a;
  NOP_VALUE(W1, a);
};
template <class E, std::size_t N, class S>
struct WLB {
  E data[N];
  S count;
  NOP_VALUE(WLB, (data, count));
};

// ---------------------------------------------------------------- tables
template <class A>
struct T1 {
  nop::Entry<A, 0> a;
  NOP_TABLE_NS("T1", T1, a);
};
template <class A, class B>
struct T2 {
  nop::Entry<A, 1> a;
  nop::Entry<B, 128> b;
  NOP_TABLE_NS("T2", T2, a, b);
};
template <class A, class B>
struct T3 {  // deleted entry in the middle, id on the U32 boundary
  nop::Entry<A, 127> a;
  nop::Entry<std::string, 5, nop::DeletedEntry> d;
  nop::Entry<B, 65536> b;
  NOP_TABLE_NS("T3", T3, a, d, b);
};
template <class A, class B>
struct T3A {  // the previous revision of T3: same name (hash) and ids, entry 5 still active
  nop::Entry<A, 127> a;
  nop::Entry<std::string, 5> d;
  nop::Entry<B, 65536> b;
  NOP_TABLE_NS("T3", T3A, a, d, b);
};
template <class A>
struct T0H {  // explicit hash, id above 2^32
  nop::Entry<A, 0x100000001ULL> a;
  NOP_TABLE_HASH(0xfedcba9876543210ULL, T0H, a);
};
template <class A>
struct TZ {  // NOP_TABLE: hash 0
  nop::Entry<A, 3> a;
  NOP_TABLE(TZ, a);
};

}  // namespace vt

namespace vf {

template <> struct EnumName<vt::EU8> { static std::string n() { return "EU8"; } };
template <> struct EnumName<vt::EI16> { static std::string n() { return "EI16"; } };
template <> struct EnumName<vt::EU32> { static std::string n() { return "EU32"; } };
template <> struct EnumName<vt::EI64> { static std::string n() { return "EI64"; } };
template <> struct EnumName<vt::EU64> { static std::string n() { return "EU64"; } };
template <> struct EnumName<vt::Err> { static std::string n() { return "Err"; } };
template <> struct EnumName<vt::ErrU8> { static std::string n() { return "ErrU8"; } };

// ---- structures
template <class A>
struct Br<vt::S1<A>> {
  using T = vt::S1<A>;
  static Sch sch() { Sch s = Sch::Of(K::Stu); s.kids = {Br<A>::sch()}; s.name = name(); return s; }
  static std::string name() { return "S1<" + Br<A>::name() + ">"; }
  static void to(const T& x, Val& v) { v = Val(); v.kids.resize(1); Br<A>::to(x.a, v.kids[0]); }
  static void from(const Val& v, T& x) { Br<A>::from(v.kids[0], x.a); }
};
template <class A, class B>
struct Br<vt::S2<A, B>> {
  using T = vt::S2<A, B>;
  static Sch sch() { Sch s = Sch::Of(K::Stu); s.kids = {Br<A>::sch(), Br<B>::sch()}; s.name = name(); return s; }
  static std::string name() { return "S2<" + Br<A>::name() + "," + Br<B>::name() + ">"; }
  static void to(const T& x, Val& v) { v = Val(); v.kids.resize(2); Br<A>::to(x.a, v.kids[0]); Br<B>::to(x.b, v.kids[1]); }
  static void from(const Val& v, T& x) { Br<A>::from(v.kids[0], x.a); Br<B>::from(v.kids[1], x.b); }
};
template <class A, class B, class C>
struct Br<vt::S3<A, B, C>> {
  using T = vt::S3<A, B, C>;
  static Sch sch() { Sch s = Sch::Of(K::Stu); s.kids = {Br<A>::sch(), Br<B>::sch(), Br<C>::sch()}; s.name = name(); return s; }
  static std::string name() { return "S3<" + Br<A>::name() + "," + Br<B>::name() + "," + Br<C>::name() + ">"; }
  static void to(const T& x, Val& v) { v = Val(); v.kids.resize(3); Br<A>::to(x.a, v.kids[0]); Br<B>::to(x.b, v.kids[1]); Br<C>::to(x.c, v.kids[2]); }
  static void from(const Val& v, T& x) { Br<A>::from(v.kids[0], x.a); Br<B>::from(v.kids[1], x.b); Br<C>::from(v.kids[2], x.c); }
};
template <class A, class B>
struct Br<vt::X2<A, B>> {
  using T = vt::X2<A, B>;
  static Sch sch() { Sch s = Sch::Of(K::Stu); s.kids = {Br<A>::sch(), Br<B>::sch()}; s.name = name(); return s; }
  static std::string name() { return "X2<" + Br<A>::name() + "," + Br<B>::name() + ">"; }
  static void to(const T& x, Val& v) { v = Val(); v.kids.resize(2); Br<A>::to(x.a, v.kids[0]); Br<B>::to(x.b, v.kids[1]); }
  static void from(const Val& v, T& x) { Br<A>::from(v.kids[0], x.a); Br<B>::from(v.kids[1], x.b); }
};
template <>
struct Br<vt::XP> {
  using T = vt::XP;
  static Sch sch() { Sch s = Sch::Of(K::Stu); s.kids = {Br<int32_t>::sch(), Br<std::string>::sch()}; s.name = name(); return s; }
  static std::string name() { return "XP"; }
  static void to(const T& x, Val& v) { v = Val(); v.kids.resize(2); Br<int32_t>::to(x.a, v.kids[0]); Br<std::string>::to(x.b, v.kids[1]); }
  static void from(const Val& v, T& x) { Br<int32_t>::from(v.kids[0], x.a); Br<std::string>::from(v.kids[1], x.b); }
};

// ---- logical buffers: the Val is the logical content (first `count` elements)
template <class E, std::size_t N, class S, bool Integral = std::is_integral<E>::value>
struct LBBridge;
template <class E, std::size_t N, class S>
struct LBBridge<E, N, S, true> {
  static Sch sch() {
    Sch s = Sch::Of(K::BinLB);
    s.w = sizeof(E); s.n = N; s.sw = sizeof(S); s.ssigned = std::is_signed<S>::value;
    s.boolelem = std::is_same<E, bool>::value;
    return s;
  }
  template <class Arr>
  static void to(const Arr& data, const S& count, Val& v) {
    size_t n = count < 0 ? 0 : (size_t)count;
    if (n > N) n = N;
    bin_to(&data[0], n, v);
  }
  template <class Arr>
  static void from(const Val& v, Arr& data, S& count) {
    size_t n = v.raw.size() / sizeof(E);
    bin_from(v, &data[0], N);
    count = (S)n;
  }
};
template <class E, std::size_t N, class S>
struct LBBridge<E, N, S, false> {
  static Sch sch() {
    Sch s = Sch::Of(K::AryLB);
    s.kids = {Br<E>::sch()};
    s.n = N; s.sw = sizeof(S); s.ssigned = std::is_signed<S>::value;
    return s;
  }
  template <class Arr>
  static void to(const Arr& data, const S& count, Val& v) {
    size_t n = count < 0 ? 0 : (size_t)count;
    if (n > N) n = N;
    v = Val();
    v.kids.resize(n);
    for (size_t i = 0; i < n; i++) Br<E>::to(data[i], v.kids[i]);
  }
  template <class Arr>
  static void from(const Val& v, Arr& data, S& count) {
    for (size_t i = 0; i < N; i++) {
      if (i < v.kids.size()) Br<E>::from(v.kids[i], data[i]);
      else data[i] = E();
    }
    count = (S)v.kids.size();
  }
};
template <class E, std::size_t N, class S>
struct Br<vt::LBC<E, N, S>> {
  using T = vt::LBC<E, N, S>;
  static Sch sch() { Sch s = Sch::Of(K::Stu); s.kids = {LBBridge<E, N, S>::sch()}; s.kids[0].name = "lb"; s.name = name(); return s; }
  static std::string name() { return "LBC<" + Br<E>::name() + "," + std::to_string(N) + "," + Br<S>::name() + ">"; }
  static void to(const T& x, Val& v) { v = Val(); v.kids.resize(1); LBBridge<E, N, S>::to(x.data, x.count, v.kids[0]); }
  static void from(const Val& v, T& x) { LBBridge<E, N, S>::from(v.kids[0], x.data, x.count); }
};
template <class E, std::size_t N, class S>
struct Br<vt::LBA<E, N, S>> {
  using T = vt::LBA<E, N, S>;
  static Sch sch() { Sch s = Sch::Of(K::Stu); s.kids = {LBBridge<E, N, S>::sch()}; s.kids[0].name = "lb"; s.name = name(); return s; }
  static std::string name() { return "LBA<" + Br<E>::name() + "," + std::to_string(N) + "," + Br<S>::name() + ">"; }
  static void to(const T& x, Val& v) { v = Val(); v.kids.resize(1); LBBridge<E, N, S>::to(x.data, x.count, v.kids[0]); }
  static void from(const Val& v, T& x) { LBBridge<E, N, S>::from(v.kids[0], x.data, x.count); }
};
template <class E, std::size_t N, class S>
struct Br<vt::LBM<E, N, S>> {
  using T = vt::LBM<E, N, S>;
  static Sch sch() {
    Sch s = Sch::Of(K::Stu);
    s.kids = {Br<int32_t>::sch(), LBBridge<E, N, S>::sch(), Br<uint8_t>::sch()};
    s.name = name();
    return s;
  }
  static std::string name() { return "LBM<" + Br<E>::name() + "," + std::to_string(N) + "," + Br<S>::name() + ">"; }
  static void to(const T& x, Val& v) {
    v = Val(); v.kids.resize(3);
    Br<int32_t>::to(x.pre, v.kids[0]); LBBridge<E, N, S>::to(x.data, x.count, v.kids[1]); Br<uint8_t>::to(x.post, v.kids[2]);
  }
  static void from(const Val& v, T& x) {
    Br<int32_t>::from(v.kids[0], x.pre); LBBridge<E, N, S>::from(v.kids[1], x.data, x.count); Br<uint8_t>::from(v.kids[2], x.post);
  }
};
template <class E>
struct Br<vt::UB<E>> {
  using T = vt::UB<E>;
  static Sch sch() {
    Sch s = Sch::Of(K::Stu);
    s.kids = {LBBridge<E, vt::kUnboundedCap, std::size_t>::sch()};
    s.kids[0].unbounded = true;
    s.name = name();
    return s;
  }
  static std::string name() { return "UB<" + Br<E>::name() + ">"; }
  // the object was allocated with room for kUnboundedCap elements (see UBHolder)
  static void to(const T& x, Val& v) { v = Val(); v.kids.resize(1); LBBridge<E, vt::kUnboundedCap, std::size_t>::to(x.data, x.size, v.kids[0]); }
  static void from(const Val& v, T& x) { LBBridge<E, vt::kUnboundedCap, std::size_t>::from(v.kids[0], x.data, x.size); }
};
// ---- value wrappers are transparent on the wire
template <class A>
struct Br<vt::W1<A>> {
  using T = vt::W1<A>;
  static Sch sch() { Sch s = Br<A>::sch(); s.name = name(); return s; }
  static std::string name() { return "W1<" + Br<A>::name() + ">"; }
  static void to(const T& x, Val& v) { Br<A>::to(x.a, v); }
  static void from(const Val& v, T& x) { Br<A>::from(v, x.a); }
};
template <class E, std::size_t N, class S>
struct Br<vt::WLB<E, N, S>> {
  using T = vt::WLB<E, N, S>;
  static Sch sch() { Sch s = LBBridge<E, N, S>::sch(); s.name = name(); return s; }
  static std::string name() { return "WLB<" + Br<E>::name() + "," + std::to_string(N) + "," + Br<S>::name() + ">"; }
  static void to(const T& x, Val& v) { LBBridge<E, N, S>::to(x.data, x.count, v); }
  static void from(const Val& v, T& x) { LBBridge<E, N, S>::from(v, x.data, x.count); }
};

// ---- tables
template <class E, class EntryT>
inline void entry_to(const EntryT& e, Val& v) {
  v = Val();
  if (!e.empty()) { v.u = 1; v.kids.resize(1); Br<E>::to(e.get(), v.kids[0]); }
}
template <class E, class EntryT>
inline void entry_from(const Val& v, EntryT& e) {
  if (!v.u) { e.clear(); return; }
  E x{};
  Br<E>::from(v.kids[0], x);
  // in-place construction: plain assignment is ambiguous when E is itself an Optional (converting assignment)
  EntryT tmp(nop::InPlace{}, std::move(x));
  e = std::move(tmp);
}
inline Sch tab_sch(uint64_t hash, std::vector<Sch> kids, std::vector<uint64_t> ids, std::vector<char> del, std::string name) {
  Sch s = Sch::Of(K::Tab);
  s.n = hash; s.kids = std::move(kids); s.ids = std::move(ids); s.deleted = std::move(del); s.name = std::move(name);
  return s;
}
template <class A>
struct Br<vt::T1<A>> {
  using T = vt::T1<A>;
  static Sch sch() { return tab_sch(siphash24_cstr("T1", kTableKey0, kTableKey1), {Br<A>::sch()}, {0}, {0}, name()); }
  static std::string name() { return "T1<" + Br<A>::name() + ">"; }
  static void to(const T& x, Val& v) { v = Val(); v.kids.resize(1); entry_to<A>(x.a, v.kids[0]); }
  static void from(const Val& v, T& x) { entry_from<A>(v.kids[0], x.a); }
};
template <class A, class B>
struct Br<vt::T2<A, B>> {
  using T = vt::T2<A, B>;
  static Sch sch() { return tab_sch(siphash24_cstr("T2", kTableKey0, kTableKey1), {Br<A>::sch(), Br<B>::sch()}, {1, 128}, {0, 0}, name()); }
  static std::string name() { return "T2<" + Br<A>::name() + "," + Br<B>::name() + ">"; }
  static void to(const T& x, Val& v) { v = Val(); v.kids.resize(2); entry_to<A>(x.a, v.kids[0]); entry_to<B>(x.b, v.kids[1]); }
  static void from(const Val& v, T& x) { entry_from<A>(v.kids[0], x.a); entry_from<B>(v.kids[1], x.b); }
};
template <class A, class B>
struct Br<vt::T3<A, B>> {
  using T = vt::T3<A, B>;
  static Sch sch() {
    return tab_sch(siphash24_cstr("T3", kTableKey0, kTableKey1), {Br<A>::sch(), Br<std::string>::sch(), Br<B>::sch()},
                   {127, 5, 65536}, {0, 1, 0}, name());
  }
  static std::string name() { return "T3<" + Br<A>::name() + "," + Br<B>::name() + ">"; }
  static void to(const T& x, Val& v) { v = Val(); v.kids.resize(3); entry_to<A>(x.a, v.kids[0]); entry_to<B>(x.b, v.kids[2]); }
  static void from(const Val& v, T& x) { entry_from<A>(v.kids[0], x.a); entry_from<B>(v.kids[2], x.b); }
};
template <class A, class B>
struct Br<vt::T3A<A, B>> {
  using T = vt::T3A<A, B>;
  static Sch sch() {
    return tab_sch(siphash24_cstr("T3", kTableKey0, kTableKey1), {Br<A>::sch(), Br<std::string>::sch(), Br<B>::sch()},
                   {127, 5, 65536}, {0, 0, 0}, name());
  }
  static std::string name() { return "T3A<" + Br<A>::name() + "," + Br<B>::name() + ">"; }
  static void to(const T& x, Val& v) { v = Val(); v.kids.resize(3); entry_to<A>(x.a, v.kids[0]); entry_to<std::string>(x.d, v.kids[1]); entry_to<B>(x.b, v.kids[2]); }
  static void from(const Val& v, T& x) { entry_from<A>(v.kids[0], x.a); entry_from<std::string>(v.kids[1], x.d); entry_from<B>(v.kids[2], x.b); }
};
template <class A>
struct Br<vt::T0H<A>> {
  using T = vt::T0H<A>;
  static Sch sch() { return tab_sch(0xfedcba9876543210ULL, {Br<A>::sch()}, {0x100000001ULL}, {0}, name()); }
  static std::string name() { return "T0H<" + Br<A>::name() + ">"; }
  static void to(const T& x, Val& v) { v = Val(); v.kids.resize(1); entry_to<A>(x.a, v.kids[0]); }
  static void from(const Val& v, T& x) { entry_from<A>(v.kids[0], x.a); }
};
template <class A>
struct Br<vt::TZ<A>> {
  using T = vt::TZ<A>;
  static Sch sch() { return tab_sch(0, {Br<A>::sch()}, {3}, {0}, name()); }
  static std::string name() { return "TZ<" + Br<A>::name() + ">"; }
  static void to(const T& x, Val& v) { v = Val(); v.kids.resize(1); entry_to<A>(x.a, v.kids[0]); }
  static void from(const Val& v, T& x) { entry_from<A>(v.kids[0], x.a); }
};

}  // namespace vf
