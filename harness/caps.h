// Compile-time capability requirements of a type: float payloads (not supported by ConstexprBufferWriter),
// Skip (tables), handle channel.
#pragma once
#include "rigs.h"
#include "types.h"

namespace vf {

template <class T, class = void>
struct Caps { static constexpr int v = 0; };
template <> struct Caps<float> { static constexpr int v = CapFloat; };
template <> struct Caps<double> { static constexpr int v = CapFloat; };

template <class... Ts>
struct CapsOr { static constexpr int v = 0; };
template <class A, class... Ts>
struct CapsOr<A, Ts...> { static constexpr int v = Caps<A>::v | CapsOr<Ts...>::v; };

template <class E, class A> struct Caps<std::vector<E, A>> { static constexpr int v = Caps<E>::v; };
template <class E, size_t N> struct Caps<std::array<E, N>> { static constexpr int v = Caps<E>::v; };
template <class E, size_t N> struct Caps<E[N]> { static constexpr int v = Caps<E>::v; };
template <class A, class B> struct Caps<std::pair<A, B>> { static constexpr int v = CapsOr<A, B>::v; };
template <class... Ts> struct Caps<std::tuple<Ts...>> { static constexpr int v = CapsOr<Ts...>::v; };
template <class K, class V, class C, class A> struct Caps<std::map<K, V, C, A>> { static constexpr int v = CapsOr<K, V>::v; };
template <class K, class V, class H, class E, class A> struct Caps<std::unordered_map<K, V, H, E, A>> { static constexpr int v = CapsOr<K, V>::v; };
template <class E> struct Caps<nop::Optional<E>> { static constexpr int v = Caps<E>::v; };
template <class Er, class E> struct Caps<nop::Result<Er, E>> { static constexpr int v = Caps<E>::v; };
template <class... Ts> struct Caps<nop::Variant<Ts...>> { static constexpr int v = CapsOr<Ts...>::v; };
template <class P> struct Caps<nop::Handle<P>> { static constexpr int v = CapHandle; };
template <class A> struct Caps<vt::S1<A>> { static constexpr int v = Caps<A>::v; };
template <class A, class B> struct Caps<vt::S2<A, B>> { static constexpr int v = CapsOr<A, B>::v; };
template <class A, class B, class C> struct Caps<vt::S3<A, B, C>> { static constexpr int v = CapsOr<A, B, C>::v; };
template <class A, class B> struct Caps<vt::X2<A, B>> { static constexpr int v = CapsOr<A, B>::v; };
template <class E, size_t N, class S> struct Caps<vt::LBC<E, N, S>> { static constexpr int v = Caps<E>::v; };
template <class E, size_t N, class S> struct Caps<vt::LBA<E, N, S>> { static constexpr int v = Caps<E>::v; };
template <class E, size_t N, class S> struct Caps<vt::LBM<E, N, S>> { static constexpr int v = Caps<E>::v; };
template <class E> struct Caps<vt::UB<E>> { static constexpr int v = Caps<E>::v; };
template <class A> struct Caps<vt::W1<A>> { static constexpr int v = Caps<A>::v; };
template <class E, size_t N, class S> struct Caps<vt::WLB<E, N, S>> { static constexpr int v = Caps<E>::v; };
template <class A> struct Caps<vt::T1<A>> { static constexpr int v = Caps<A>::v | CapSkip; };
template <class A, class B> struct Caps<vt::T2<A, B>> { static constexpr int v = CapsOr<A, B>::v | CapSkip; };
template <class A, class B> struct Caps<vt::T3<A, B>> { static constexpr int v = CapsOr<A, B>::v | CapSkip; };
template <class A, class B> struct Caps<vt::T3A<A, B>> { static constexpr int v = CapsOr<A, B>::v | CapSkip; };
template <class A> struct Caps<vt::T0H<A>> { static constexpr int v = Caps<A>::v | CapSkip; };
template <class A> struct Caps<vt::TZ<A>> { static constexpr int v = Caps<A>::v | CapSkip; };

}  // namespace vf
