// Type-erased operations of one C++ type of the universe: create/destroy objects, bridge to Val, run every
// applicable writer/reader rig. The property checks (checks/codec.cpp) are plain code over TypeOps, so the only
// per-type template cost is libnop's own Encoding<T> instantiated once per rig.
#pragma once
#include <functional>
#include <memory>

#include "caps.h"
#include "domain.h"

namespace vf {

struct WOut {
  int err = 0;               // first error
  size_t failed_at = 0;      // index of the value whose Write failed
  std::vector<uint8_t> bytes;
  size_t reported = 0;       // writer.size()
  bool intact = true;        // canaries untouched
  std::vector<size_t> ends;  // writer.size() after each successful value
};
struct RIn {
  int err = 0;
  size_t failed_at = 0;
  size_t consumed = 0;           // bytes taken from the source at the end
  std::vector<size_t> ends;      // consumed after each successful value
};

struct WriterOps {
  std::string name;
  bool checked = false;     // refuses writes beyond its capacity by itself
  bool unbounded = false;   // ignores capacity (stream / fd)
  bool constexpr_writer = false;
  std::function<WOut(void* const* objs, size_t n, size_t cap)> run;
};
struct ReaderOps {
  std::string name, family;
  int trunc_error = 0;
  bool bounded = false;  // a C02 "bounded reader"
  std::function<RIn(const uint8_t* d, size_t len, void* const* objs, size_t n)> run;
};

struct TypeOps {
  std::string name;
  Sch sch;
  int caps = 0;
  size_t obj_size = 0;
  std::function<void*()> create;
  std::function<void(void*)> destroy;
  std::function<void(const Val&, void*)> from_val;
  std::function<void(const void*, Val&)> to_val;
  std::function<size_t(const void*)> getsize;
  std::vector<WriterOps> writers;
  std::vector<ReaderOps> readers;
  // probe rigs: full access to the scripted writer/reader
  std::function<int(const void* obj, ProbeWriter& w)> probe_write;
  std::function<int(void* obj, ProbeReader& r)> probe_read;
};

template <class T>
struct Holder {
  T v{};
  T& subject() { return v; }
};
// std::reference_wrapper<T> is not default constructible: the wrapper refers to a T that lives next to it, the
// library is handed the wrapper, the bridges look at the referent
template <class T>
struct RefHolder {
  T v{};
  std::reference_wrapper<T> ref{v};
  std::reference_wrapper<T>& subject() { return ref; }
  RefHolder() = default;
  RefHolder(const RefHolder&) = delete;
};

// unbounded logical buffer: the structure is followed by room for kUnboundedCap elements in one allocation
template <class T>
struct UBHolder {
  void* mem;
  T& v;
  static void* alloc() {
    using E = std::remove_reference_t<decltype(std::declval<T&>().data[0])>;
    return calloc(1, sizeof(T) + sizeof(E) * vt::kUnboundedCap);
  }
  UBHolder() : mem(alloc()), v(*new (mem) T()) {}
  UBHolder(const UBHolder&) = delete;
  ~UBHolder() { free(mem); }
  T& subject() { return v; }
};

template <class Rig, class T, class H = Holder<T>>
WOut run_writer(void* const* objs, size_t n, size_t cap) {
  WOut o;
  Rig rig(cap);
  for (size_t i = 0; i < n; i++) {
    St st = rig.write(static_cast<H*>(objs[i])->subject());
    if (!st) {
      o.err = ecode(st);
      o.failed_at = i;
      break;
    }
    o.ends.push_back(rig.size());
  }
  o.reported = rig.size();
  o.bytes = rig.bytes();
  o.intact = rig.intact();
  return o;
}
template <class Rig, class T, class H = Holder<T>>
RIn run_reader(const uint8_t* d, size_t len, void* const* objs, size_t n) {
  RIn r;
  Rig rig(d, len);
  for (size_t i = 0; i < n; i++) {
    St st = rig.read(&static_cast<H*>(objs[i])->subject());
    if (!st) {
      r.err = ecode(st);
      r.failed_at = i;
      break;
    }
    r.ends.push_back(rig.consumed());
  }
  r.consumed = r.err ? 0 : rig.consumed();
  return r;
}

template <bool On, class Rig, class T, class H = Holder<T>>
struct AddW {
  static void go(TypeOps& t, bool unbounded = false, bool cex = false) {
    WriterOps w;
    w.name = Rig::name();
    w.checked = Rig::checked;
    w.unbounded = unbounded;
    w.constexpr_writer = cex;
    w.run = &run_writer<Rig, T, H>;
    t.writers.push_back(std::move(w));
  }
};
template <class Rig, class T, class H>
struct AddW<false, Rig, T, H> {
  static void go(TypeOps&, bool = false, bool = false) {}
};
template <bool On, class Rig, class T, class H = Holder<T>>
struct AddR {
  static void go(TypeOps& t, bool bounded) {
    ReaderOps r;
    r.name = Rig::name();
    r.family = Rig::family();
    r.trunc_error = Rig::trunc_error();
    r.bounded = bounded;
    r.run = &run_reader<Rig, T, H>;
    t.readers.push_back(std::move(r));
  }
};
template <class Rig, class T, class H>
struct AddR<false, Rig, T, H> {
  static void go(TypeOps&, bool) {}
};

// H = Holder<T>: the library sees the object itself; H = RefHolder<T>: it sees std::reference_wrapper<T>
template <class T, class H = Holder<T>>
TypeOps make_ops() {
  TypeOps t;
  t.name = Br<T>::name();
  if (std::is_same<H, RefHolder<T>>::value) t.name = "reference_wrapper<" + t.name + ">";
  t.sch = Br<T>::sch();
  t.sch.name = t.name;
  constexpr int caps = Caps<T>::v;
  t.caps = caps;
  t.obj_size = sizeof(T);
  t.create = []() -> void* { return new H(); };
  t.destroy = [](void* p) { delete static_cast<H*>(p); };
  t.from_val = [](const Val& v, void* p) { Br<T>::from(v, static_cast<H*>(p)->v); };
  t.to_val = [](const void* p, Val& v) { Br<T>::to(static_cast<const H*>(p)->v, v); };
  t.getsize = [](const void* p) -> size_t {
    nop::Serializer<nop::BufferWriter*> s{nullptr};
    return s.GetSize(const_cast<H*>(static_cast<const H*>(p))->subject());
  };
#define VF_W(Rig, ...) AddW<(caps & Rig::lacks) == 0, Rig, T, H>::go(t, ##__VA_ARGS__)
  VF_W(WBuf);
  VF_W(WPed);
  VF_W(WCex, false, true);
  VF_W(WStr, true);
  VF_W(WFd, true);
  VF_W(WBoundedLimit<WBuf>);
  VF_W(WBoundedLimit<WPed>);
  VF_W(WBoundedLimit<WCex>, false, true);
  VF_W(WBoundedLimit<WStr>);
  VF_W(WBoundedInner<WBuf>);
  VF_W(WBoundedInner<WPed>);
  VF_W(WBoundedInner<WCex>, false, true);
  VF_W(WBoundedInner<WFd>, true);
#ifdef THOROUGH
  VF_W(WFile, true);
#endif
#undef VF_W
#define VF_R(Rig, bounded) AddR<(caps & Rig::lacks) == 0, Rig, T, H>::go(t, bounded)
  VF_R(RBuf, true);
  VF_R(RPed, true);
  VF_R(RStr, false);
  VF_R(RFd, false);
  using RBB = RBounded<RBuf>;
  using RBP = RBounded<RPed>;
  using RBS = RBounded<RStr>;
  using RBF = RBounded<RFd>;
  using RBBH = RBounded<RBuf, true>;
  using RBPH = RBounded<RPed, true>;
  VF_R(RBB, true);
  VF_R(RBP, true);
  VF_R(RBS, true);
  VF_R(RBF, true);
  VF_R(RBBH, true);
  VF_R(RBPH, true);
#ifdef THOROUGH
  VF_R(RFile, false);
  using RBFile = RBounded<RFile>;
  VF_R(RBFile, true);
#endif
#undef VF_R
  t.probe_write = [](const void* p, ProbeWriter& w) -> int {
    nop::Serializer<ProbeWriter*> s{&w};
    return ecode(s.Write(const_cast<H*>(static_cast<const H*>(p))->subject()));
  };
  t.probe_read = [](void* p, ProbeReader& r) -> int {
    nop::Deserializer<ProbeReader*> s{&r};
    return ecode(s.Read(&static_cast<H*>(p)->subject()));
  };
  return t;
}

struct Obj {
  const TypeOps* t;
  void* p;
  explicit Obj(const TypeOps& ops) : t(&ops), p(ops.create()) {}
  Obj(const TypeOps& ops, const Val& v) : t(&ops), p(ops.create()) { ops.from_val(v, p); }
  Obj(const Obj&) = delete;
  Obj& operator=(const Obj&) = delete;
  ~Obj() { t->destroy(p); }
  Val val() const {
    Val v;
    t->to_val(p, v);
    return v;
  }
};

}  // namespace vf
