// Shared reporting for all explorers: counters, distinct-case accounting, samples, violations.
// Output protocol: JSON lines on stdout, consumed by the ./verif driver.
//   {"t":"viol","sig":"...","case":"...","msg":"...","detail":{...}}
//   {"t":"sample","v":...}
//   {"t":"stat","counters":{...},"distinct":N,"outcomes":[...],"notes":[...]}
#pragma once
#include <cinttypes>
#include <cstdint>
#include <cstdio>
#include <cstdlib>
#include <cstring>
#include <map>
#include <set>
#include <string>
#include <unordered_set>
#include <vector>

namespace vf {

inline std::string jesc(const std::string& s) {
  std::string o;
  o.reserve(s.size() + 2);
  for (unsigned char c : s) {
    switch (c) {
      case '"': o += "\\\""; break;
      case '\\': o += "\\\\"; break;
      case '\n': o += "\\n"; break;
      case '\t': o += "\\t"; break;
      case '\r': o += "\\r"; break;
      default:
        if (c < 0x20 || c >= 0x7f) {
          char b[8];
          snprintf(b, sizeof b, "\\u%04x", c);
          o += b;
        } else {
          o += (char)c;
        }
    }
  }
  return o;
}
inline std::string jstr(const std::string& s) { return "\"" + jesc(s) + "\""; }

inline std::string hex(const uint8_t* p, size_t n, size_t cap = 96) {
  static const char* d = "0123456789abcdef";
  std::string o;
  size_t m = n < cap ? n : cap;
  for (size_t i = 0; i < m; i++) {
    o += d[p[i] >> 4];
    o += d[p[i] & 15];
  }
  if (m < n) o += "..(" + std::to_string(n) + "B)";
  return o;
}
inline std::string hex(const std::vector<uint8_t>& v, size_t cap = 96) { return hex(v.data(), v.size(), cap); }

inline uint64_t fnv(const std::string& s, uint64_t h = 1469598103934665603ULL) {
  for (unsigned char c : s) {
    h ^= c;
    h *= 1099511628211ULL;
  }
  return h;
}

struct Report {
  std::map<std::string, uint64_t> counters;
  std::unordered_set<uint64_t> distinct;
  uint64_t distinct_direct = 0;  // cases distinct by construction (counted, not hashed)
  std::set<std::string> outcomes;
  std::vector<std::string> notes;
  std::map<std::string, int> viol_per_sig;
  std::map<std::string, uint64_t> viol_count_per_sig;
  int samples = 0, max_samples = 6;
  uint64_t violations = 0;
  // replay filter: when non-empty only cases whose id equals `only` are executed (and verbosely).
  std::string only;
  bool verbose = false;
  bool silent = false;  // negative-control mode: count, do not print

  void add(const char* k, uint64_t n = 1) { counters[k] += n; }
  void nontrivial(const std::string& case_id) { distinct.insert(fnv(case_id)); }
  void nontrivial_direct(uint64_t n) { distinct_direct += n; }
  void outcome(const std::string& o) {
    if (outcomes.size() < 64) outcomes.insert(o);
  }
  void note(const std::string& n) { notes.push_back(n); }
  // replay filter: the requested case, or the case a requested sub-case ("<case>|<detail>") belongs to
  bool want(const std::string& case_id) const {
    return only.empty() || only == case_id ||
           (only.size() > case_id.size() && only[case_id.size()] == '|' && only.compare(0, case_id.size(), case_id) == 0);
  }
  void sample(const std::string& json) {
    if (samples < max_samples && !silent) {
      samples++;
      printf("{\"t\":\"sample\",\"v\":%s}\n", json.c_str());
    }
  }
  // sig: root-cause signature (stable, coarse); case_id: replay key; detail: JSON object text.
  void viol(const std::string& sig, const std::string& case_id, const std::string& msg,
            const std::string& detail = "{}") {
    violations++;
    viol_count_per_sig[sig]++;
    if (viol_per_sig[sig]++ < 3 && !silent) {
      printf("{\"t\":\"viol\",\"sig\":%s,\"case\":%s,\"msg\":%s,\"detail\":%s}\n", jstr(sig).c_str(),
             jstr(case_id).c_str(), jstr(msg).c_str(), detail.c_str());
      fflush(stdout);
    }
  }
  void finish() {
    printf("{\"t\":\"stat\",\"counters\":{");
    bool first = true;
    for (auto& kv : counters) {
      printf("%s%s:%" PRIu64, first ? "" : ",", jstr(kv.first).c_str(), kv.second);
      first = false;
    }
    printf("},\"distinct\":%" PRIu64 ",\"violations\":%" PRIu64 ",\"sigcounts\":{",
           (uint64_t)distinct.size() + distinct_direct, violations);
    first = true;
    for (auto& kv : viol_count_per_sig) {
      printf("%s%s:%" PRIu64, first ? "" : ",", jstr(kv.first).c_str(), kv.second);
      first = false;
    }
    printf("},\"outcomes\":[");
    first = true;
    for (auto& o : outcomes) {
      printf("%s%s", first ? "" : ",", jstr(o).c_str());
      first = false;
    }
    printf("],\"notes\":[");
    first = true;
    for (auto& o : notes) {
      printf("%s%s", first ? "" : ",", jstr(o).c_str());
      first = false;
    }
    printf("]}\n");
    fflush(stdout);
  }
};

// Common command line: --tier quick|thorough --shard i/n --only <case id> --prop <ID> [--deadline secs]
struct Args {
  std::string tier = "quick", prop, only;
  int shard = 0, nshards = 1;
  double deadline = 0;
  std::vector<std::string> rest;
  bool thorough() const { return tier == "thorough"; }
  static Args parse(int argc, char** argv) {
    Args a;
    for (int i = 1; i < argc; i++) {
      std::string s = argv[i];
      auto next = [&]() -> std::string { return i + 1 < argc ? argv[++i] : ""; };
      if (s == "--tier") a.tier = next();
      else if (s == "--prop") a.prop = next();
      else if (s == "--only") a.only = next();
      else if (s == "--deadline") a.deadline = atof(next().c_str());
      else if (s == "--shard") {
        std::string v = next();
        sscanf(v.c_str(), "%d/%d", &a.shard, &a.nshards);
      } else a.rest.push_back(s);
    }
    return a;
  }
};

}  // namespace vf
