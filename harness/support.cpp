// Harness support compiled as its own translation unit:
//  * opaque exact-size buffers (the optimiser cannot see their size; canaries when not under ASan)
//  * in-memory file descriptors behind __wrap_read/__wrap_write/__wrap_close (link with
//    -Wl,--wrap=read,--wrap=write,--wrap=close)
//  * metered global operator new
//  * sanitizer report hooks
#include "support.h"

#include <errno.h>
#include <unistd.h>

#include <cstdio>
#include <cstdlib>
#include <cstring>
#include <map>
#include <new>

#if defined(__has_feature)
#if __has_feature(address_sanitizer)
#define VF_ASAN 1
#endif
#endif
#if defined(__SANITIZE_ADDRESS__)
#define VF_ASAN 1
#endif

namespace vf {

static const size_t kGuard = 64;
static const unsigned char kCanary = 0xCD;

volatile uint64_t g_sanitizer_reports = 0;
volatile uint64_t g_fd_misuse = 0;
volatile unsigned g_bool_sink = 0;
volatile uint64_t g_alloc_bytes = 0, g_alloc_max = 0, g_alloc_calls = 0, g_alloc_refused = 0;
volatile bool g_meter = false;
long g_live_blocks = 0;

bool under_asan() {
#ifdef VF_ASAN
  return true;
#else
  return false;
#endif
}

uint8_t* opaque_alloc(size_t n) {
#ifdef VF_ASAN
  // exact-size block: ASan's redzones sit directly after byte n-1
  uint8_t* p = static_cast<uint8_t*>(malloc(n ? n : 1));
  if (n == 0) return p;  // a 1-byte block of which 0 bytes are "valid"; callers pass length 0
  return p;
#else
  uint8_t* raw = static_cast<uint8_t*>(malloc(n + 2 * kGuard + sizeof(size_t)));
  memcpy(raw, &n, sizeof(size_t));
  uint8_t* g = raw + sizeof(size_t);
  memset(g, kCanary, kGuard);
  memset(g + kGuard + n, kCanary, kGuard);
  memset(g + kGuard, 0xEE, n);
  return g + kGuard;
#endif
}
bool opaque_intact(const uint8_t* p) {
#ifdef VF_ASAN
  (void)p;
  return true;
#else
  const uint8_t* g = p - kGuard;
  size_t n;
  memcpy(&n, g - sizeof(size_t), sizeof(size_t));
  for (size_t i = 0; i < kGuard; i++)
    if (g[i] != kCanary || p[n + i] != kCanary) return false;
  return true;
#endif
}
void opaque_free(uint8_t* p) {
#ifdef VF_ASAN
  free(p);
#else
  free(p - kGuard - sizeof(size_t));
#endif
}
uint8_t* opaque_copy(const uint8_t* src, size_t n) {
  uint8_t* p = opaque_alloc(n);
  if (n) memcpy(p, src, n);
  return p;
}
// launder a value through a volatile so the optimiser cannot constant-fold across it
size_t launder(size_t v) {
  volatile size_t x = v;
  return x;
}

// ---------------------------------------------------------------- fake fds
static std::map<int, FakeFd>& table() {
  static std::map<int, FakeFd> t;
  return t;
}
static int g_next_fd = 1000000;
int fakefd_create(const uint8_t* data, size_t n) {
  int fd = g_next_fd++;
  FakeFd& f = table()[fd];
  if (n) f.data.assign(data, data + n);
  return fd;
}
FakeFd* fakefd_get(int fd) {
  auto it = table().find(fd);
  return it == table().end() ? nullptr : &it->second;
}
void fakefd_destroy(int fd) { table().erase(fd); }
size_t fakefd_live() { return table().size(); }

}  // namespace vf

extern "C" {
ssize_t __real_read(int, void*, size_t);
ssize_t __real_write(int, const void*, size_t);
int __real_close(int);

static int next_answer(vf::FakeFd* f) {
  int a = 0;
  if (f->call < f->script.size()) a = f->script[f->call];
  f->call++;
  return a;
}

ssize_t __wrap_read(int fd, void* buf, size_t n) {
  vf::FakeFd* f = vf::fakefd_get(fd);
  if (!f) {
    if (fd >= 1000000 || fd < 0) { errno = EBADF; return -1; }
    return __real_read(fd, buf, n);
  }
  if (f->closed) { vf::g_fd_misuse = vf::g_fd_misuse + 1; errno = EBADF; return -1; }
  size_t lim = f->chunk;
  switch (next_answer(f)) {
    case 1: errno = EINTR; return -1;
    case 2: errno = EIO; return -1;
    case 3: return 0;
    case 4: if (n > 1) lim = 1; break;
    case 5: if (n > 1) lim = n - 1; break;
    default: break;
  }
  size_t avail = f->data.size() - f->rpos;
  size_t k = n < avail ? n : avail;
  if (k > lim) k = lim;
  if (k) memcpy(buf, f->data.data() + f->rpos, k);
  f->rpos += k;
  return (ssize_t)k;
}
ssize_t __wrap_write(int fd, const void* buf, size_t n) {
  vf::FakeFd* f = vf::fakefd_get(fd);
  if (!f) {
    if (fd >= 1000000 || fd < 0) { errno = EBADF; return -1; }
    return __real_write(fd, buf, n);
  }
  if (f->closed) { vf::g_fd_misuse = vf::g_fd_misuse + 1; errno = EBADF; return -1; }
  size_t lim = f->chunk;
  switch (next_answer(f)) {
    case 1: errno = EINTR; return -1;
    case 2: errno = EIO; return -1;
    case 3: return 0;
    case 4: if (n > 1) lim = 1; break;
    case 5: if (n > 1) lim = n - 1; break;
    default: break;
  }
  size_t room = f->wcap - f->data.size();
  size_t k = n < room ? n : room;
  if (k == 0 && n > 0) { errno = ENOSPC; return -1; }
  if (k > lim) k = lim;
  f->data.insert(f->data.end(), (const uint8_t*)buf, (const uint8_t*)buf + k);
  return (ssize_t)k;
}
int __wrap_close(int fd) {
  vf::FakeFd* f = vf::fakefd_get(fd);
  if (!f) {
    if (fd >= 1000000 || fd < 0) { errno = EBADF; return -1; }
    return __real_close(fd);
  }
  if (f->closed) vf::g_fd_misuse = vf::g_fd_misuse + 1;  // closed twice: in a real process the number may belong to someone else by now
  f->closed = true;
  f->closes++;
  return 0;
}

// ---------------------------------------------------------------- sanitizer hooks
// ASan calls this (weak) hook for every report, also with halt_on_error=0.
void __asan_on_error(void) { vf::g_sanitizer_reports = vf::g_sanitizer_reports + 1; }
// UBSan calls this (weak, "monitor") hook for every report.
void __ubsan_on_report(void) { vf::g_sanitizer_reports = vf::g_sanitizer_reports + 1; }
}

// ---------------------------------------------------------------- metered operator new
static void* metered_alloc(size_t n) {
  if (vf::g_meter) {
    vf::g_alloc_calls = vf::g_alloc_calls + 1;
    vf::g_alloc_bytes = vf::g_alloc_bytes + n;
    if (n > vf::g_alloc_max) vf::g_alloc_max = n;
    if (n > (size_t(1) << 30)) {
      vf::g_alloc_refused = vf::g_alloc_refused + 1;
      throw std::bad_alloc();
    }
  }
  void* p = malloc(n ? n : 1);
  if (!p) throw std::bad_alloc();
  __atomic_add_fetch(&vf::g_live_blocks, 1, __ATOMIC_RELAXED);
  return p;
}
static inline void metered_free(void* p) noexcept {
  if (p) __atomic_sub_fetch(&vf::g_live_blocks, 1, __ATOMIC_RELAXED);
  free(p);
}
void* operator new(size_t n) { return metered_alloc(n); }
void* operator new[](size_t n) { return metered_alloc(n); }
// the nothrow forms too: libstdc++'s temporary buffers (std::stable_sort, std::inplace_merge) allocate with
// operator new(n, std::nothrow) and release with the plain operator delete; leaving the nothrow form to the sanitizer
// runtime makes every such buffer an alloc-dealloc-mismatch report
void* operator new(size_t n, const std::nothrow_t&) noexcept {
  try { return metered_alloc(n); } catch (const std::bad_alloc&) { return nullptr; }
}
void* operator new[](size_t n, const std::nothrow_t&) noexcept {
  try { return metered_alloc(n); } catch (const std::bad_alloc&) { return nullptr; }
}
void operator delete(void* p, const std::nothrow_t&) noexcept { metered_free(p); }
void operator delete[](void* p, const std::nothrow_t&) noexcept { metered_free(p); }
void operator delete(void* p) noexcept { metered_free(p); }
void operator delete[](void* p) noexcept { metered_free(p); }
void operator delete(void* p, size_t) noexcept { metered_free(p); }
void operator delete[](void* p, size_t) noexcept { metered_free(p); }
