#pragma once
#include <cstddef>
#include <cstdint>
#include <vector>

namespace vf {

bool under_asan();
uint8_t* opaque_alloc(size_t n);
uint8_t* opaque_copy(const uint8_t* src, size_t n);
bool opaque_intact(const uint8_t* p);
void opaque_free(uint8_t* p);
size_t launder(size_t v);

struct FakeFd {
  std::vector<uint8_t> data;  // bytes to read / bytes written
  size_t rpos = 0;
  size_t wcap = ~(size_t)0;   // device capacity for writes
  bool closed = false;
  int closes = 0;
  // answer script per read()/write() call: 0 normal, 1 -> -1/EINTR, 2 -> -1/EIO, 3 -> 0 (EOF / nothing written),
  // 4 -> short transfer of 1 byte, 5 -> short transfer of n-1 bytes (both only when more than one byte was asked for)
  std::vector<int> script;
  size_t chunk = ~(size_t)0;  // no single call transfers more than this many bytes (a pipe / socket / tty may do that)
  size_t call = 0;
};
int fakefd_create(const uint8_t* data = nullptr, size_t n = 0);
FakeFd* fakefd_get(int fd);
void fakefd_destroy(int fd);
size_t fakefd_live();

extern volatile uint64_t g_sanitizer_reports;
extern volatile uint64_t g_fd_misuse;  // read/write/close on an in-memory descriptor that was already closed
extern volatile uint64_t g_alloc_bytes, g_alloc_max, g_alloc_calls, g_alloc_refused;
extern volatile bool g_meter;
extern long g_live_blocks;  // blocks obtained from operator new and not yet returned (always counted)
inline long live_blocks() { return __atomic_load_n(&g_live_blocks, __ATOMIC_RELAXED); }

struct Meter {
  Meter() { g_alloc_bytes = 0; g_alloc_max = 0; g_alloc_calls = 0; g_alloc_refused = 0; g_meter = true; }
  ~Meter() { g_meter = false; }
};

struct OpaqueBuf {
  uint8_t* p;
  size_t n;
  explicit OpaqueBuf(size_t n_) : p(opaque_alloc(n_)), n(n_) {}
  OpaqueBuf(const uint8_t* src, size_t n_) : p(opaque_copy(src, n_)), n(n_) {}
  OpaqueBuf(const OpaqueBuf&) = delete;
  OpaqueBuf& operator=(const OpaqueBuf&) = delete;
  ~OpaqueBuf() { opaque_free(p); }
  bool intact() const { return opaque_intact(p); }
};

}  // namespace vf
