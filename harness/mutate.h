// Mutation operators M1-M8 over reference encodings (DESIGN.md 4.4).
#pragma once
#include "refcodec.h"
namespace vf {}
