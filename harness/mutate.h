// Mutation operators M1-M8 over reference encodings (DESIGN.md 4.4), driven by the encoder's field map.
// Every mutation is emitted through a sink; nothing is sampled.
#pragma once
#include <functional>

#include "refcodec.h"

namespace vf {

enum class MKind : uint8_t {
  Identity, Truncate, ByteSub, IntClass, FieldValue, PrefixSwap, EntryDup, EntryDrop, EntrySwap, Trailing,
  EntryShrink, EntryGrowPadded, EntryGrowUnpadded, HashChange, ShortString, PayloadFill
};
inline const char* mkind_name(MKind k) {
  static const char* n[] = {"identity", "truncate", "bytesub", "intclass", "fieldvalue", "prefixswap", "entrydup", "entrydrop",
                            "entryswap", "trailing", "entryshrink", "entrygrow+pad", "entrygrow-nopad", "hashchange", "short", "payloadfill"};
  return n[(int)k];
}
struct Mut {
  MKind kind;
  Role role = Role::Payload;   // role of the field that was touched (FieldValue / IntClass)
  size_t pos = 0;              // byte position / field offset
  uint64_t arg = 0;            // substituted byte / new field value / class prefix
  std::vector<uint8_t> bytes;
  bool category_comparable = false;  // single local defect whose error category the property pins
  uint64_t max_declared = 0;   // largest length-like field value present after mutation (for unbounded readers)
  std::string id() const {
    return std::string(mkind_name(kind)) + "@" + std::to_string(pos) + ":" + std::to_string(arg);
  }
};

struct MutCfg {
  bool bytesub = true;        // M2
  size_t bytesub_max_len = 96;
  bool bytesub_structural_only = false;  // skip the interior bytes of raw payloads (first and last byte are kept)
  bool thorough = false;
};

inline bool is_length_like(Role r) {
  return r == Role::ByteLength || r == Role::Count || r == Role::FixedCount || r == Role::MemberCount || r == Role::LBLength ||
         r == Role::EntryCount || r == Role::EntrySize;
}
inline bool is_int_field(Role r) {
  return r == Role::IntValue || is_length_like(r) || r == Role::VarIndex || r == Role::HandleType || r == Role::HandleRef ||
         r == Role::ErrCode || r == Role::TableHash || r == Role::EntryId;
}

// replace bytes [off, off+len) of src by rep
inline std::vector<uint8_t> splice(const std::vector<uint8_t>& src, size_t off, size_t len, const std::vector<uint8_t>& rep) {
  std::vector<uint8_t> o(src.begin(), src.begin() + off);
  o.insert(o.end(), rep.begin(), rep.end());
  o.insert(o.end(), src.begin() + off + len, src.end());
  return o;
}
inline std::vector<uint8_t> min_uint(uint64_t v) {
  Enc e;
  enc_uint(e, v, Role::IntValue);
  return e.bytes;
}
inline std::vector<uint8_t> min_sint(int64_t v) {
  Enc e;
  enc_sint(e, v, Role::IntValue);
  return e.bytes;
}

inline void mutations(const Sch& s, const Val& v, const MutCfg& cfg, const std::function<void(const Mut&)>& sink) {
  Enc e;
  e.want_fields = true;
  refenc(s, v, e);
  const std::vector<uint8_t>& b = e.bytes;
  uint64_t base_declared = 0;
  for (auto& f : e.fields)
    if (is_length_like(f.role)) base_declared = std::max(base_declared, f.value);
  auto emit = [&](Mut& m) {
    if (m.max_declared < base_declared && m.kind != MKind::FieldValue) m.max_declared = base_declared;
    sink(m);
  };
  {
    Mut m; m.kind = MKind::Identity; m.bytes = b; emit(m);
  }
  // M1 truncation at every k
  for (size_t k = 0; k < b.size(); k++) {
    Mut m; m.kind = MKind::Truncate; m.pos = k; m.bytes.assign(b.begin(), b.begin() + k); m.category_comparable = true; emit(m);
  }
  // M2 every byte position x every value
  if (cfg.bytesub && b.size() <= cfg.bytesub_max_len) {
    std::vector<char> skip(b.size(), 0);
    if (cfg.bytesub_structural_only)
      for (auto& f : e.fields)
        if (f.role == Role::Payload && f.len > 2)
          for (size_t i = f.off + 1; i + 1 < f.off + f.len; i++) skip[i] = 1;
    for (size_t i = 0; i < b.size(); i++)
      for (unsigned x = 0; x < 256; x++) {
        if (skip[i]) break;
        if (x == b[i]) continue;
        Mut m; m.kind = MKind::ByteSub; m.pos = i; m.arg = x; m.bytes = b; m.bytes[i] = (uint8_t)x;
        // a substituted byte may be (part of) a length: assume the worst for unbounded readers
        m.max_declared = ~0ULL;
        emit(m);
      }
  } else {
    // M5 on long encodings: every prefix byte x every value
    for (auto& f : e.fields) {
      if (f.role != Role::Prefix) continue;
      for (unsigned x = 0; x < 256; x++) {
        if (x == b[f.off]) continue;
        Mut m; m.kind = MKind::PrefixSwap; m.pos = f.off; m.arg = x; m.bytes = b; m.bytes[f.off] = (uint8_t)x;
        m.max_declared = ~0ULL;
        emit(m);
      }
    }
  }
  // M3 re-encode every integer field in every class able to hold its value (both signednesses)
  static const uint8_t kClasses[] = {0x00, 0xc0, 0x80, 0x81, 0x82, 0x83, 0x84, 0x85, 0x86, 0x87};
  for (auto& f : e.fields) {
    if (!is_int_field(f.role)) continue;
    for (uint8_t cls : kClasses) {
      std::vector<uint8_t> rep;
      // value reinterpretation: unsigned fields hold f.value; signed fields hold the sign-extended value
      if (!enc_int_class(rep, cls, f.value)) continue;
      // unsigned classes can only carry non-negative values of signed fields and vice versa
      if (f.sgn && (int64_t)f.value < 0 && (cls == 0x00 || (cls >= 0x80 && cls <= 0x83))) continue;
      if (!f.sgn && (f.value >> 63) && (cls == 0xc0 || cls >= 0x84)) continue;
      std::vector<uint8_t> nb = splice(b, f.off, f.len, rep);
      if (nb == b) continue;
      Mut m; m.kind = MKind::IntClass; m.role = f.role; m.pos = f.off; m.arg = cls; m.bytes = std::move(nb);
      m.category_comparable = true;
      emit(m);
    }
  }
  // M4 set every length/count/id/index/size field to boundary values
  for (auto& f : e.fields) {
    if (!is_int_field(f.role) || f.role == Role::IntValue || f.role == Role::ErrCode) continue;
    std::vector<uint64_t> cands = {0, f.value - 1, f.value + 1, 127, 128, 255, 256, 65535, 65536, 1ULL << 31, (1ULL << 32) - 1,
                                   1ULL << 32, 1ULL << 63, ~0ULL};
    if (f.role == Role::TableHash) { cands.push_back(f.value ^ (1ULL << 40)); cands.push_back(f.value ^ (1ULL << 63)); cands.push_back(f.value & 0xffffffffULL); }
    std::set<uint64_t> done;
    for (uint64_t nv : cands) {
      if (nv == f.value || !done.insert(nv).second) continue;
      std::vector<uint8_t> rep = f.sgn ? min_sint((int64_t)nv) : min_uint(nv);
      Mut m; m.kind = MKind::FieldValue; m.role = f.role; m.pos = f.off; m.arg = nv; m.bytes = splice(b, f.off, f.len, rep);
      // local defects whose category the property names; variable counts and entry sizes cascade, so they are
      // compared on accept/reject only
      m.category_comparable = (f.role == Role::FixedCount || f.role == Role::MemberCount || f.role == Role::VarIndex ||
                               f.role == Role::HandleType || f.role == Role::TableHash || f.role == Role::ByteLength ||
                               f.role == Role::LBLength);
      m.max_declared = is_length_like(f.role) ? std::max(base_declared, nv) : base_declared;
      emit(m);
    }
  }
  // M9 every raw payload of two or more bytes filled with one value (several elements invalid at once: a byte
  // substitution only ever makes one element of a bool array invalid)
  for (auto& f : e.fields) {
    if (f.role != Role::Payload || f.len < 2) continue;
    for (uint8_t x : {0x02, 0x80, 0xff}) {
      Mut m; m.kind = MKind::PayloadFill; m.pos = f.off; m.arg = x; m.bytes = b;
      for (size_t i = 0; i < f.len; i++) m.bytes[f.off + i] = x;
      if (m.bytes == b) continue;
      emit(m);
    }
  }
  // M7 trailing bytes
  for (uint8_t x : {0x00, 0xff, 0xbe}) {
    Mut m; m.kind = MKind::Trailing; m.arg = x; m.bytes = b; m.bytes.push_back(x); emit(m);
  }
  // M6 / M8 table entries: spans from consecutive (EntryId, EntrySize) fields of the same depth
  struct Span { size_t begin, size_off, size_len, val_begin, end; uint64_t size; int depth; size_t count_field; };
  std::vector<Span> spans;
  for (size_t i = 0; i + 1 < e.fields.size(); i++) {
    if (e.fields[i].role != Role::EntryId) continue;
    const Field& idf = e.fields[i];
    const Field& szf = e.fields[i + 1];
    if (szf.role != Role::EntrySize) continue;
    // owning EntryCount: nearest preceding EntryCount with depth == idf.depth - 1
    size_t cf = e.fields.size();
    for (size_t j = i; j-- > 0;)
      if (e.fields[j].role == Role::EntryCount && e.fields[j].depth == idf.depth - 1) { cf = j; break; }
    spans.push_back({idf.off, szf.off, szf.len, szf.aux, szf.aux + (size_t)szf.value, szf.value, idf.depth, cf});
  }
  auto with_count = [&](std::vector<uint8_t> nb, const Span& sp, int delta, size_t edit_pos, long edit_delta) {
    // adjust the owning table's entry count by delta; count field precedes the edit so offsets there are stable
    if (sp.count_field >= e.fields.size()) return nb;
    const Field& c = e.fields[sp.count_field];
    (void)edit_pos; (void)edit_delta;
    return splice(nb, c.off, c.len, min_uint(c.value + delta));
  };
  for (size_t a = 0; a < spans.size(); a++) {
    const Span& sp = spans[a];
    std::vector<uint8_t> entry(b.begin() + sp.begin, b.begin() + sp.end);
    {  // duplicate adjacent (count + 1)
      std::vector<uint8_t> nb = splice(b, sp.end, 0, entry);
      nb = with_count(nb, sp, +1, 0, 0);
      Mut m; m.kind = MKind::EntryDup; m.pos = sp.begin; m.bytes = std::move(nb); m.category_comparable = true; emit(m);
    }
    {  // drop (count - 1)
      std::vector<uint8_t> nb = splice(b, sp.begin, sp.end - sp.begin, {});
      nb = with_count(nb, sp, -1, 0, 0);
      Mut m; m.kind = MKind::EntryDrop; m.pos = sp.begin; m.bytes = std::move(nb); emit(m);
    }
    // swap with the next entry of the same table
    for (size_t c = a + 1; c < spans.size(); c++) {
      const Span& sq = spans[c];
      if (sq.depth != sp.depth || sq.count_field != sp.count_field || sq.begin != sp.end) continue;
      std::vector<uint8_t> second(b.begin() + sq.begin, b.begin() + sq.end);
      std::vector<uint8_t> both = second;
      both.insert(both.end(), entry.begin(), entry.end());
      Mut m; m.kind = MKind::EntrySwap; m.pos = sp.begin; m.bytes = splice(b, sp.begin, sq.end - sp.begin, both); emit(m);
      break;
    }
    // shrink the declared size by 1..size (bytes unchanged)
    for (uint64_t d = 1; d <= sp.size && d <= 12; d++) {
      Mut m; m.kind = MKind::EntryShrink; m.pos = sp.size_off; m.arg = d;
      m.bytes = splice(b, sp.size_off, sp.size_len, min_uint(sp.size - d));
      emit(m);
    }
    // grow by 1..3 with and without the padding bytes present
    for (uint64_t d = 1; d <= 3; d++) {
      {
        std::vector<uint8_t> nb = splice(b, sp.end, 0, std::vector<uint8_t>(d, 0x5a));  // non-zero padding is legal on input
        nb = splice(nb, sp.size_off, sp.size_len, min_uint(sp.size + d));
        Mut m; m.kind = MKind::EntryGrowPadded; m.pos = sp.size_off; m.arg = d; m.bytes = std::move(nb); emit(m);
      }
      {
        Mut m; m.kind = MKind::EntryGrowUnpadded; m.pos = sp.size_off; m.arg = d;
        m.bytes = splice(b, sp.size_off, sp.size_len, min_uint(sp.size + d));
        emit(m);
      }
    }
  }
}

// all byte strings of length <= maxlen, in order of length then lexicographic
inline void short_strings(size_t maxlen, const std::function<void(const uint8_t*, size_t)>& sink) {
  uint8_t buf[4];
  sink(buf, 0);
  for (size_t len = 1; len <= maxlen; len++) {
    uint64_t total = 1ULL << (8 * len);
    for (uint64_t x = 0; x < total; x++) {
      for (size_t i = 0; i < len; i++) buf[i] = (uint8_t)(x >> (8 * (len - 1 - i)));
      sink(buf, len);
    }
  }
}

}  // namespace vf
