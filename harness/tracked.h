// Lifetime-tracking element types for the value-type model checks (C12, C13, C15, C19).
// Every construction registers the object's address, every destruction unregisters it; constructing over a live
// object, destroying a dead one, or touching a dead one is recorded as a lifetime violation.
#pragma once
#include <cstdint>
#include <set>
#include <stdexcept>
#include <string>

namespace vf {

struct LifeRegistry {
  std::set<const void*> live;
  long ctors = 0, dtors = 0;
  std::string violation;  // first lifetime violation observed
  int throw_countdown = 0;  // >0: the n-th next construction of a throwing type throws
  void fail(const std::string& w) { if (violation.empty()) violation = w; }
  void reset() { live.clear(); ctors = dtors = 0; violation.clear(); throw_countdown = 0; }
};
inline LifeRegistry& life() {
  static thread_local LifeRegistry r;
  return r;
}

struct ArmedThrow : std::runtime_error {
  ArmedThrow() : std::runtime_error("armed constructor") {}
};

// ThrowEarly: an armed construction throws before any member is written (the element's storage is untouched); otherwise it
// throws from the constructor body, after `v` was stored.
template <bool Early>
struct ThrowGate {
  ThrowGate() { if (Early && life().throw_countdown > 0 && --life().throw_countdown == 0) throw ArmedThrow(); }
  ThrowGate(const ThrowGate&) : ThrowGate() {}
  ThrowGate& operator=(const ThrowGate&) { return *this; }
};
template <int Tag, bool CanThrow = false, bool ThrowEarly = false>
struct Tr : ThrowGate<CanThrow && ThrowEarly> {
  static constexpr uint32_t kAlive = 0xA11FE000u + Tag, kDead = 0xDEADDEADu;
  int v;
  uint32_t cookie;
  void reg() {
    if (CanThrow && !ThrowEarly && life().throw_countdown > 0 && --life().throw_countdown == 0) throw ArmedThrow();
    if (!life().live.insert(this).second) life().fail("constructed over a live object (tag " + std::to_string(Tag) + ")");
    life().ctors++;
    cookie = kAlive;
  }
  void check(const char* what) const {
    if (cookie != kAlive) life().fail(std::string(what) + " on a dead or never-constructed object (tag " + std::to_string(Tag) + ")");
  }
  Tr() : v(0) { reg(); }
  explicit Tr(int x) : v(x) { reg(); }
  Tr(const Tr& o) : v(o.v) { o.check("copy-construct from"); reg(); }
  Tr(Tr&& o) : v(o.v) { o.check("move-construct from"); reg(); o.v = -1; }
  Tr& operator=(const Tr& o) { check("copy-assign to"); o.check("copy-assign from"); v = o.v; return *this; }
  Tr& operator=(Tr&& o) {
    check("move-assign to"); o.check("move-assign from");
    if (this != &o) { v = o.v; o.v = -1; }
    return *this;
  }
  ~Tr() {
    if (cookie != kAlive) life().fail("destroyed twice or never constructed (tag " + std::to_string(Tag) + ")");
    else if (!life().live.erase(this)) life().fail("destroyed an unregistered object");
    life().dtors++;
    cookie = kDead;
  }
  bool operator==(const Tr& o) const { check("compare"); o.check("compare"); return v == o.v; }
  bool operator!=(const Tr& o) const { return !(*this == o); }
  bool operator<(const Tr& o) const { check("compare"); o.check("compare"); return v < o.v; }
};

}  // namespace vf
