// Dynamic schema tree (Sch) and value tree (Val) used by the reference codec, the bridges and the domains.
// Nothing in here includes or depends on libnop.
#pragma once
#include <cstdint>
#include <cstring>
#include <memory>
#include <string>
#include <vector>

#include "report.h"

namespace vf {

enum class K : uint8_t {
  Bool, UInt, SInt, F32, F64,
  Str,     // w = char size
  BinVec,  // vector<integral>: w = element size
  BinArr,  // array<integral,N> / integral[N]: w, n
  BinLB,   // logical buffer of integral: w, n = capacity, sw/ssigned = size member
  AryVec,  // vector<non-integral>: kids[0] = element
  AryFix,  // array<T,N>, T[N], pair, tuple: kids = one schema per position
  AryLB,   // logical buffer of non-integral: kids[0], n = capacity, sw/ssigned
  Map,     // kids[0] key, kids[1] value; unordered flag
  Stu,     // kids = members
  Opt,     // kids[0]
  Res,     // kids[0] = error enum (UInt/SInt), kids[1] = value
  Var,     // kids = alternatives
  Hnd,     // n = handle type value (encoded as UINT64 class)
  Tab,     // n = hash; kids = entry value schemas; ids; deleted
};

struct Sch {
  K k = K::Bool;
  int w = 0;             // integer width in bytes / char size / element size
  uint64_t n = 0;        // fixed count / capacity / hash / handle type
  int sw = 0;            // logical buffer: width of the size member
  bool ssigned = false;  // logical buffer: signedness of the size member
  bool unordered = false;
  bool unbounded = false;  // logical buffer tagged NOP_UNBOUNDED_BUFFER
  bool boolelem = false;   // BIN elements are bool (payload bytes must be 0/1 to be valid objects)
  std::vector<Sch> kids;
  std::vector<uint64_t> ids;   // Tab
  std::vector<char> deleted;   // Tab
  std::string name;            // C++ spelling, for reports

  static Sch Int(bool sgn, int w) {
    Sch s;
    s.k = sgn ? K::SInt : K::UInt;
    s.w = w;
    return s;
  }
  static Sch Of(K k) {
    Sch s;
    s.k = k;
    return s;
  }
  bool has_handle() const {
    if (k == K::Hnd) return true;
    for (auto& c : kids)
      if (c.has_handle()) return true;
    return false;
  }
  bool has_float() const {
    if (k == K::F32 || k == K::F64) return true;
    for (auto& c : kids)
      if (c.has_float()) return true;
    return false;
  }
  bool has_table() const {
    if (k == K::Tab) return true;
    for (auto& c : kids)
      if (c.has_table()) return true;
    return false;
  }
  bool has_unbounded() const {
    if (unbounded) return true;
    for (auto& c : kids)
      if (c.has_unbounded()) return true;
    return false;
  }
  size_t nodes() const {
    size_t n = 1;
    for (auto& c : kids) n += c.nodes();
    return n;
  }
};

// Value tree. Interpretation is schema-directed:
//  Bool/UInt/SInt/F32/F64 : u = bits (signed ints sign-extended to 64 bits)
//  Str/BinVec/BinArr/BinLB: raw = payload bytes
//  AryVec/AryFix/AryLB/Stu: kids = elements
//  Map                    : kids = k0,v0,k1,v1,...
//  Opt                    : u = 0 empty | 1 engaged (kids[0])
//  Res                    : u = 0 error (kids[0] = error code value) | 1 value (kids[0])
//  Var                    : u = (uint64)(int64)index, -1 empty; kids[0] if engaged
//  Hnd                    : u = handle value (harness policy: int64), -1 = empty handle
//  Tab                    : kids[i] per entry: u = 0 absent | 1 present (kids[0]); deleted entries always absent
struct Val {
  uint64_t u = 0;
  std::string raw;
  std::vector<Val> kids;
  bool operator==(const Val& o) const { return u == o.u && raw == o.raw && kids == o.kids; }
  bool operator!=(const Val& o) const { return !(*this == o); }
  static Val U(uint64_t u) {
    Val v;
    v.u = u;
    return v;
  }
};

inline std::string rawhex(const std::string& s, size_t cap = 48) {
  return hex(reinterpret_cast<const uint8_t*>(s.data()), s.size(), cap);
}

inline std::string vjson(const Sch& s, const Val& v) {
  switch (s.k) {
    case K::Bool: return v.u ? "true" : "false";
    case K::UInt: return std::to_string(v.u);
    case K::SInt: return std::to_string((int64_t)v.u);
    case K::F32:
    case K::F64: {
      char b[32];
      snprintf(b, sizeof b, "\"f:0x%llx\"", (unsigned long long)v.u);
      return b;
    }
    case K::Str: return "\"s" + std::to_string(s.w) + ":" + rawhex(v.raw) + "\"";
    case K::BinVec:
    case K::BinArr:
    case K::BinLB: return "\"b" + std::to_string(s.w) + ":" + rawhex(v.raw) + "\"";
    case K::AryVec:
    case K::AryLB: {
      std::string o = "[";
      for (size_t i = 0; i < v.kids.size(); i++) {
        if (i >= 6) {
          o += ",\"..(" + std::to_string(v.kids.size()) + ")\"";
          break;
        }
        o += (i ? "," : "") + vjson(s.kids[0], v.kids[i]);
      }
      return o + "]";
    }
    case K::AryFix:
    case K::Stu: {
      std::string o = s.k == K::Stu ? "{\"stu\":[" : "[";
      for (size_t i = 0; i < v.kids.size() && i < s.kids.size(); i++) o += (i ? "," : "") + vjson(s.kids[i], v.kids[i]);
      return o + (s.k == K::Stu ? "]}" : "]");
    }
    case K::Map: {
      std::string o = "{\"map\":[";
      for (size_t i = 0; i + 1 < v.kids.size(); i += 2) {
        if (i >= 8) {
          o += ",\"..(" + std::to_string(v.kids.size() / 2) + ")\"";
          break;
        }
        o += (i ? ",[" : "[") + vjson(s.kids[0], v.kids[i]) + "," + vjson(s.kids[1], v.kids[i + 1]) + "]";
      }
      return o + "]}";
    }
    case K::Opt: return v.u ? "{\"some\":" + vjson(s.kids[0], v.kids[0]) + "}" : "null";
    case K::Res:
      return v.u ? "{\"ok\":" + vjson(s.kids[1], v.kids[0]) + "}" : "{\"err\":" + vjson(s.kids[0], v.kids[0]) + "}";
    case K::Var: {
      int64_t i = (int64_t)v.u;
      if (i < 0 || (size_t)i >= s.kids.size() || v.kids.empty()) return "{\"var\":" + std::to_string(i) + "}";
      return "{\"var\":" + std::to_string(i) + ",\"v\":" + vjson(s.kids[i], v.kids[0]) + "}";
    }
    case K::Hnd: return "{\"hnd\":" + std::to_string((int64_t)v.u) + "}";
    case K::Tab: {
      std::string o = "{\"tab\":{";
      bool first = true;
      for (size_t i = 0; i < v.kids.size() && i < s.kids.size(); i++) {
        if (!v.kids[i].u) continue;
        o += (first ? "\"" : ",\"") + std::to_string(s.ids[i]) + "\":" + vjson(s.kids[i], v.kids[i].kids[0]);
        first = false;
      }
      return o + "}}";
    }
  }
  return "?";
}

}  // namespace vf
