// The type universe (DESIGN.md 4.1) as registration lists. Each REG line is one C++ type; a translation unit
// compiled with -DSHARD=i -DNSHARDS=n instantiates only the types whose running index is congruent to i.
// REGQ: quick and thorough tiers; REGT: thorough tier only (-DTHOROUGH).
#pragma once
#include "ops.h"

#ifndef SHARD
#define SHARD 0
#endif
#ifndef NSHARDS
#define NSHARDS 1
#endif

namespace vf {

template <bool On, class T>
struct RegIf {
  static void go(std::vector<TypeOps>& l) { l.push_back(make_ops<T>()); }
};
template <class T>
struct RegIf<false, T> {
  static void go(std::vector<TypeOps>&) {}
};

#define REGQ(...) RegIf<(__COUNTER__ % NSHARDS) == SHARD, __VA_ARGS__>::go(l);
template <bool On, class T>
struct RegRefIf {
  static void go(std::vector<TypeOps>& l) { l.push_back(make_ops<T, RefHolder<T>>()); }
};
template <class T>
struct RegRefIf<false, T> {
  static void go(std::vector<TypeOps>&) {}
};
#define REGREF(...) RegRefIf<(__COUNTER__ % NSHARDS) == SHARD, __VA_ARGS__>::go(l);
template <bool On, class T>
struct RegUBIf {
  static void go(std::vector<TypeOps>& l) { l.push_back(make_ops<T, UBHolder<T>>()); }
};
template <class T>
struct RegUBIf<false, T> {
  static void go(std::vector<TypeOps>&) {}
};
#define REGUB(...) RegUBIf<(__COUNTER__ % NSHARDS) == SHARD, __VA_ARGS__>::go(l);
#ifdef THOROUGH
#define REGT(...) REGQ(__VA_ARGS__)
#else
#define REGT(...)
#endif

using std::array;
using std::map;
using std::pair;
using std::string;
using std::tuple;
using std::unordered_map;
using std::vector;
using nop::Optional;
using nop::Result;
using nop::Variant;
using namespace vt;
using i8 = std::int8_t; using u8 = std::uint8_t; using i16 = std::int16_t; using u16 = std::uint16_t;
using i32 = std::int32_t; using u32 = std::uint32_t; using i64 = std::int64_t; using u64 = std::uint64_t;

// C arrays cannot be Optional/vector elements directly; wrap them in a one-member structure where needed.
template <class E, size_t N>
using CA = S1<E[N]>;

inline void register_universe(std::vector<TypeOps>& l) {
  // ---------------------------------------------------------------- leaves
  REGQ(bool) REGQ(char) REGQ(i8) REGQ(u8) REGQ(i16) REGQ(u16) REGQ(i32) REGQ(u32) REGQ(i64) REGQ(u64)
  REGQ(std::size_t) REGQ(int) REGQ(float) REGQ(double)
  REGQ(EU8) REGQ(EI16) REGQ(EU32) REGQ(EI64) REGQ(EU64)
  REGQ(string) REGQ(std::u16string) REGQ(std::u32string) REGQ(std::wstring)
  // std::reference_wrapper<T>: the library is handed the wrapper, the referent lives next to it
  REGREF(i32) REGREF(u64) REGREF(string) REGREF(float) REGREF(vector<u8>) REGREF(vector<string>) REGREF(S2<u8, string>)
  REGREF(T2<u8, string>) REGREF(Optional<i32>) REGREF(map<i32, string>)
  // structures tagged NOP_UNBOUNDED_BUFFER (excluded from the hostile-input checks, as C02 states)
  REGUB(UB<u8>) REGUB(UB<u32>) REGUB(UB<float>) REGUB(UB<pair<char, char>>)
  // ---------------------------------------------------------------- D1: vectors
  REGQ(vector<u8>) REGQ(vector<i16>) REGQ(vector<u32>) REGQ(vector<i64>) REGQ(vector<char>) REGQ(vector<float>)
  REGQ(vector<EI16>) REGQ(vector<string>) REGT(vector<i8>) REGT(vector<u16>) REGT(vector<i32>) REGT(vector<u64>)
  REGT(vector<double>) REGT(vector<EU8>) REGT(vector<EU64>) REGT(vector<std::u16string>) REGT(vector<char16_t>)
  // arrays
  REGQ(array<u8, 3>) REGQ(array<i16, 3>) REGQ(array<u32, 3>) REGQ(array<i64, 1>) REGQ(array<bool, 3>) REGQ(array<char, 3>)
  REGQ(array<float, 3>) REGQ(array<EI16, 1>) REGQ(array<string, 3>) REGQ(array<char16_t, 3>)
  REGT(array<u8, 1>) REGT(array<i64, 3>) REGT(array<bool, 1>) REGT(array<double, 1>) REGT(array<string, 1>) REGT(array<u64, 40>)
  // C arrays (top level)
  REGQ(u8[2]) REGQ(i16[2]) REGQ(u32[2]) REGQ(bool[2]) REGQ(float[2]) REGQ(string[2]) REGQ(EI16[2])
  REGT(i64[2]) REGT(char[2]) REGT(double[3]) REGT(u16[70000])
  // element count and byte count fall into different length-prefix classes (fixint / U8 / U16)
  REGQ(u32[40]) REGQ(u64[40]) REGQ(i16[200]) REGQ(array<u32, 40>) REGQ(array<i16, 200>) REGQ(S2<u8, u32[40]>)
  // pairs / tuples
  REGQ(pair<u8, i16>) REGQ(pair<i16, u32>) REGQ(pair<u32, i64>) REGQ(pair<i64, bool>) REGQ(pair<bool, char>)
  REGQ(pair<char, float>) REGQ(pair<float, EI16>) REGQ(pair<EI16, string>) REGQ(pair<string, u8>)
  REGQ(tuple<>) REGQ(tuple<u8>) REGQ(tuple<string>) REGQ(tuple<u8, i16, u32>) REGQ(tuple<i64, bool, char>)
  REGQ(tuple<float, EI16, string>) REGT(tuple<u64, u64, u64, u64, double>) REGT(tuple<i8>) REGT(tuple<string, string>)
  // maps
  REGQ(map<i32, u8>) REGQ(map<i32, string>) REGQ(map<string, i16>) REGQ(map<string, string>) REGQ(map<EI16, u32>)
  REGQ(map<u64, i64>) REGQ(map<i32, float>) REGQ(map<string, bool>)
  REGQ(unordered_map<i32, u8>) REGQ(unordered_map<string, i16>) REGQ(unordered_map<u64, string>) REGQ(unordered_map<i32, float>)
  REGT(map<u8, u8>) REGT(map<i64, char>) REGT(unordered_map<string, string>) REGT(unordered_map<i64, EI16>)
  // Optional / Result / Variant
  REGQ(Optional<u8>) REGQ(Optional<i16>) REGQ(Optional<u32>) REGQ(Optional<i64>) REGQ(Optional<bool>) REGQ(Optional<char>)
  REGQ(Optional<float>) REGQ(Optional<EI16>) REGQ(Optional<string>)
  REGQ(Result<Err, u8>) REGQ(Result<Err, i16>) REGQ(Result<Err, u32>) REGQ(Result<Err, i64>) REGQ(Result<Err, bool>)
  REGQ(Result<Err, float>) REGQ(Result<Err, EI16>) REGQ(Result<Err, string>) REGQ(Result<ErrU8, string>) REGQ(Result<ErrU8, i64>)
  REGT(Result<Err, char>) REGT(Result<ErrU8, u8>)
  // nested results (same error type): the outer holds a value whose own state is value / error / empty
  REGQ(Result<Err, Result<Err, u8>>) REGQ(Result<Err, Result<Err, string>>) REGQ(Optional<Result<Err, Result<Err, i16>>>)
  REGQ(Variant<u8>) REGQ(Variant<string>) REGQ(Variant<u8, i16, u32>) REGQ(Variant<i64, bool, char>)
  REGQ(Variant<float, EI16, string>) REGQ(Variant<i32, string>) REGT(Variant<u64, double, vector<u8>, string, bool>)
  // structures
  REGQ(S1<u8>) REGQ(S1<string>) REGQ(S2<u8, i16>) REGQ(S2<u32, i64>) REGQ(S2<bool, char>) REGQ(S2<float, EI16>)
  REGQ(S2<string, u8>) REGQ(S3<u8, string, i64>) REGQ(S3<float, bool, EI16>) REGQ(X2<i32, string>) REGQ(X2<u8, float>) REGQ(XP)
  REGT(S3<u64, u64, u64>) REGT(S1<double>) REGT(S2<std::wstring, char>)
  // logical buffers: element x size member x container
  REGQ(LBC<u8, 200, u8>) REGQ(LBC<u8, 300, u16>) REGQ(LBC<u8, 300, u32>) REGQ(LBC<u8, 300, std::size_t>)
  REGQ(LBC<u8, 100, i8>) REGQ(LBC<u8, 300, i16>) REGQ(LBC<u8, 300, i32>) REGQ(LBC<u8, 300, i64>)
  REGQ(LBC<u32, 100, u8>) REGQ(LBC<u32, 100, u16>) REGQ(LBC<u32, 100, i8>) REGQ(LBC<u32, 100, i32>)
  REGQ(LBC<float, 4, u8>) REGQ(LBC<float, 200, i32>) REGQ(LBC<string, 4, u8>) REGQ(LBC<string, 200, i32>)
  REGQ(LBC<string, 200, u16>) REGQ(LBC<string, 100, i8>)
  REGQ(LBA<u8, 200, u8>) REGQ(LBA<u8, 300, i32>) REGQ(LBA<u32, 100, u8>) REGQ(LBA<u32, 100, std::size_t>)
  REGQ(LBA<float, 4, u16>) REGQ(LBA<string, 4, std::size_t>) REGQ(LBA<string, 200, i16>)
  REGQ(LBM<u8, 300, u16>) REGQ(LBM<u32, 100, u8>) REGQ(LBM<string, 200, i32>) REGQ(LBM<u16, 100, i8>)
  REGT(LBC<u32, 100, u32>) REGT(LBC<u32, 100, std::size_t>) REGT(LBC<u32, 100, i16>) REGT(LBC<u32, 100, i64>)
  REGT(LBC<float, 200, u16>) REGT(LBC<float, 100, i8>) REGT(LBC<string, 200, std::size_t>) REGT(LBC<string, 200, i64>)
  REGT(LBA<u8, 300, u16>) REGT(LBA<u8, 100, i8>) REGT(LBA<u32, 100, i32>) REGT(LBA<float, 200, i64>) REGT(LBA<string, 200, u32>)
  REGT(LBC<u16, 40000, u16>) REGT(LBC<i64, 40, u8>) REGT(LBC<bool, 4, u8>) REGT(LBC<EI16, 4, u8>)
  // value wrappers
  REGQ(W1<u8>) REGQ(W1<i64>) REGQ(W1<float>) REGQ(W1<string>) REGQ(W1<vector<u32>>) REGQ(W1<EI16>)
  REGQ(WLB<u8, 300, u16>) REGQ(WLB<u32, 100, u8>) REGQ(WLB<string, 4, i32>) REGQ(WLB<float, 4, u8>)
  // tables
  REGQ(T1<u8>) REGQ(T1<i64>) REGQ(T1<string>) REGQ(T1<float>) REGQ(T1<bool>) REGQ(T1<EI16>) REGQ(T1<vector<u32>>)
  REGQ(T2<u8, i16>) REGQ(T2<u32, string>) REGQ(T2<string, i64>) REGQ(T2<float, bool>) REGQ(T2<vector<string>, char>)
  REGQ(T3<u8, string>) REGQ(T3<string, i64>) REGQ(T3A<u8, string>) REGQ(T0H<string>) REGQ(T0H<u32>) REGQ(TZ<i16>) REGQ(TZ<string>)
  REGT(T1<char>) REGT(T1<u32>) REGT(T2<i64, i64>) REGT(T3<float, vector<u8>>)
  // entries whose value has a length prefix that changes class between element count and byte count
  REGQ(T1<std::u16string>) REGQ(T2<std::u32string, vector<u16>>) REGQ(T1<vector<i64>>) REGQ(T2<std::wstring, array<u32, 40>>)
  REGQ(T1<LBC<string, 4, u8>>) REGQ(T2<LBC<float, 4, u8>, WLB<string, 4, i32>>)
  REGQ(S2<std::u16string, vector<u32>>) REGQ(vector<std::u16string>) REGQ(Optional<std::u32string>) REGQ(map<i32, std::u16string>)
  // ---------------------------------------------------------------- D2: every ordered pair of constructors
  // vector<K<..>>
  REGQ(vector<vector<u8>>) REGQ(vector<array<u32, 3>>) REGQ(vector<CA<i16, 2>>) REGQ(vector<pair<u8, string>>)
  REGQ(vector<tuple<i16, string, bool>>) REGQ(vector<map<i32, string>>) REGQ(vector<unordered_map<i32, u8>>)
  REGQ(vector<Optional<string>>) REGQ(vector<Result<Err, i64>>) REGQ(vector<Variant<i32, string>>) REGQ(vector<S2<u8, string>>)
  REGQ(vector<LBC<u8, 4, u8>>) REGQ(vector<W1<i32>>) REGQ(vector<T2<u8, string>>) REGQ(vector<vector<string>>)
  // array<K<..>>
  REGQ(array<vector<u8>, 3>) REGQ(array<array<i16, 3>, 1>) REGQ(array<pair<u8, i64>, 3>) REGQ(array<tuple<string>, 3>)
  REGQ(array<map<string, i16>, 1>) REGQ(array<Optional<u32>, 3>) REGQ(array<Result<Err, string>, 3>)
  REGQ(array<Variant<u8, string>, 3>) REGQ(array<S2<bool, float>, 3>) REGQ(array<LBC<string, 4, u8>, 1>) REGQ(array<W1<string>, 3>)
  REGQ(array<T1<string>, 3>) REGT(array<unordered_map<i32, u8>, 1>) REGT(array<CA<u8, 2>, 3>)
  // C array <K<..>>
  REGQ(vector<u8>[2]) REGQ(pair<i16, string>[2]) REGQ(Optional<i64>[2]) REGQ(S2<u8, u8>[2]) REGQ(T1<u8>[2])
  REGT(map<i32, u8>[2]) REGT(Variant<u8, string>[2]) REGT(array<u8, 3>[2])
  // pair / tuple <K<..>>
  REGQ(pair<vector<u32>, array<u8, 3>>) REGQ(pair<pair<u8, i16>, tuple<string>>) REGQ(pair<map<i32, u8>, unordered_map<i32, u8>>)
  REGQ(pair<Optional<u8>, Result<Err, string>>) REGQ(pair<Variant<u8, string>, S2<i16, string>>) REGQ(pair<LBC<u8, 4, u8>, W1<i16>>)
  REGQ(pair<T1<string>, u8>) REGQ(tuple<vector<string>, Optional<i16>, S1<u8>>) REGQ(tuple<T2<u8, i16>, Variant<string>, map<string, i16>>)
  REGQ(tuple<CA<u8, 2>, Result<Err, u8>, W1<string>>) REGT(tuple<pair<u8, u8>, tuple<>, array<string, 1>>)
  // map / unordered_map <K, K<..>>
  REGQ(map<i32, vector<u8>>) REGQ(map<string, array<i16, 3>>) REGQ(map<i32, pair<u8, string>>) REGQ(map<i32, map<i32, u8>>)
  REGQ(map<string, Optional<i32>>) REGQ(map<i32, Result<Err, string>>) REGQ(map<i32, Variant<u8, string>>)
  REGQ(map<i32, S2<u8, string>>) REGQ(map<i32, LBC<u8, 4, u8>>) REGQ(map<i32, W1<string>>) REGQ(map<i32, T1<string>>)
  REGQ(unordered_map<i32, vector<string>>) REGQ(unordered_map<string, Optional<u8>>) REGQ(unordered_map<i32, S2<u8, i16>>)
  REGQ(unordered_map<i32, T1<u8>>) REGQ(map<i32, tuple<u8, string>>) REGQ(map<i32, unordered_map<i32, u8>>)
  REGT(unordered_map<i32, Variant<u8, string>>) REGT(unordered_map<i32, map<i32, u8>>) REGT(map<pair<u8, u8>, u8>)
  // Optional<K<..>>
  REGQ(Optional<vector<u8>>) REGQ(Optional<vector<string>>) REGQ(Optional<array<u32, 3>>) REGQ(Optional<pair<u8, string>>)
  REGQ(Optional<tuple<i16, string>>) REGQ(Optional<map<i32, string>>) REGQ(Optional<unordered_map<i32, u8>>)
  REGQ(Optional<Result<Err, i16>>) REGQ(Optional<Variant<u8, string>>) REGQ(Optional<S2<u8, string>>)
  REGQ(Optional<Optional<u8>>) REGQ(Optional<Optional<string>>) REGQ(S2<Optional<Optional<string>>, u8>) REGQ(vector<Optional<Optional<i16>>>)
  REGQ(vector<array<bool, 3>>) REGQ(Optional<array<bool, 3>>)
  REGQ(Optional<LBC<u8, 4, u8>>) REGQ(Optional<W1<i32>>) REGQ(Optional<T2<u8, string>>) REGQ(Optional<CA<u8, 2>>)
  // Result<E, K<..>>
  REGQ(Result<Err, vector<u8>>) REGQ(Result<Err, vector<string>>) REGQ(Result<Err, array<i16, 3>>) REGQ(Result<Err, pair<u8, string>>)
  REGQ(Result<Err, map<i32, u8>>) REGQ(Result<Err, Optional<i32>>) REGQ(Result<Err, Variant<u8, string>>)
  REGQ(Result<Err, S2<u8, string>>) REGQ(Result<Err, LBC<u8, 4, u8>>) REGQ(Result<Err, W1<string>>) REGQ(Result<Err, T1<string>>)
  REGT(Result<Err, tuple<u8, u8>>) REGT(Result<Err, unordered_map<i32, u8>>)
  // Variant<K<..>>
  REGQ(Variant<vector<u8>, vector<string>>) REGQ(Variant<array<u8, 3>, pair<u8, i16>>) REGQ(Variant<tuple<string>, map<i32, u8>>)
  REGQ(Variant<unordered_map<i32, u8>, Optional<u8>>) REGQ(Variant<Result<Err, u8>, S1<Variant<u8, string>>>)
  REGQ(Variant<S2<u8, string>, LBC<u8, 4, u8>>) REGQ(Variant<W1<i32>, T1<string>>)
  // S<K<..>>
  REGQ(S2<vector<u8>, vector<string>>) REGQ(S2<array<u32, 3>, i8[2]>) REGQ(S2<pair<u8, string>, tuple<i16>>)
  REGQ(S2<map<i32, string>, unordered_map<i32, u8>>) REGQ(S2<Optional<u8>, Optional<string>>) REGQ(S2<Result<Err, u8>, Variant<u8, string>>)
  REGQ(S2<S1<u8>, S2<string, i16>>) REGQ(S2<LBC<u8, 4, u8>, W1<u8>>) REGQ(S3<T1<u8>, i32, T2<string, i16>>)
  REGQ(S3<Optional<i32>, vector<Optional<i32>>, bool>)
  // LB<K<..>>
  REGQ(LBC<vector<u8>, 3, u8>) REGQ(LBC<pair<u8, string>, 3, u16>) REGQ(LBC<Optional<i32>, 3, u8>) REGQ(LBC<S2<u8, string>, 3, i32>)
  REGQ(LBC<map<i32, u8>, 2, u8>) REGQ(LBC<Variant<u8, string>, 3, u8>) REGQ(LBC<T1<u8>, 2, u8>) REGQ(LBC<array<u8, 3>, 3, u8>)
  REGT(LBC<Result<Err, u8>, 3, u8>) REGT(LBC<W1<u8>, 3, u8>) REGT(LBC<LBC<u8, 4, u8>, 2, u8>) REGT(LBC<tuple<u8>, 3, u8>)
  // W1<K<..>>
  REGQ(W1<vector<string>>) REGQ(W1<array<u8, 3>>) REGQ(W1<pair<u8, string>>) REGQ(W1<map<i32, u8>>) REGQ(W1<Optional<i32>>)
  REGQ(W1<Variant<u8, string>>) REGQ(W1<S2<u8, string>>) REGQ(W1<T1<string>>) REGQ(W1<W1<u8>>) REGQ(W1<Result<Err, u8>>)
  // T<K<..>>
  REGQ(T2<vector<u8>, vector<string>>) REGQ(T2<array<u32, 3>, pair<u8, string>>) REGQ(T2<tuple<i16, string>, map<i32, string>>)
  REGQ(T2<unordered_map<i32, u8>, Optional<i32>>) REGQ(T2<Result<Err, string>, Variant<u8, string>>)
  REGQ(T2<S2<u8, string>, LBC<u8, 4, u8>>) REGQ(T2<W1<i32>, T1<string>>) REGQ(T2<T2<u8, string>, T1<T1<u8>>>)
  REGQ(T1<CA<u8, 2>>) REGQ(T3<Optional<string>, vector<T1<u8>>>)
  // ---------------------------------------------------------------- D3 spine samples
  REGQ(vector<Optional<S2<u8, vector<string>>>>) REGQ(map<string, Variant<T1<vector<u32>>, Optional<string>>>)
  REGQ(T2<vector<S2<Optional<i32>, string>>, map<i32, T1<string>>>) REGQ(Optional<Variant<S1<vector<u8>>, T1<Optional<i32>>>>)
  REGT(vector<map<i32, vector<Optional<pair<u8, string>>>>>) REGT(S3<T2<vector<T1<u8>>, string>, Variant<u8, S1<string>>, array<Optional<u8>, 3>>)
  REGT(Result<Err, vector<Result<Err, string>>>) REGT(unordered_map<string, vector<T2<u8, Optional<string>>>>)
}

}  // namespace vf
