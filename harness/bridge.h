// Br<T>: C++ object <-> Val and Schema<T>, walking members and containers directly (never through libnop's
// Encoding), so that a libnop defect cannot hide in the oracle.
#pragma once
#include <array>
#include <limits>
#include <map>
#include <string>
#include <tuple>
#include <unordered_map>
#include <utility>
#include <vector>

#include <nop/types/handle.h>
#include <nop/types/optional.h>
#include <nop/types/result.h>
#include <nop/types/variant.h>

#include "val.h"

namespace vf {

template <class T, class Enable = void>
struct Br;

// ---------------------------------------------------------------- scalars
inline void inspect_elems(const bool* p, size_t n);
template <>
struct Br<bool> {
  static Sch sch() { Sch s = Sch::Of(K::Bool); s.w = 1; s.name = name(); return s; }
  static std::string name() { return "bool"; }
  static void to(const bool& x, Val& v) {
    // read the object representation: an invalid bool (not 0/1) must be visible, not normalised
    unsigned char b;
    memcpy(&b, &x, 1);
    v = Val::U(b);
    inspect_elems(&x, 1);
  }
  static void from(const Val& v, bool& x) { x = v.u != 0; }
};

template <class T>
struct IntName;
#define VF_INTNAME(T) template <> struct IntName<T> { static const char* n() { return #T; } };
VF_INTNAME(char) VF_INTNAME(signed char) VF_INTNAME(unsigned char) VF_INTNAME(short) VF_INTNAME(unsigned short)
VF_INTNAME(int) VF_INTNAME(unsigned int) VF_INTNAME(long) VF_INTNAME(unsigned long) VF_INTNAME(long long)
VF_INTNAME(unsigned long long) VF_INTNAME(char16_t) VF_INTNAME(char32_t) VF_INTNAME(wchar_t)
#undef VF_INTNAME

template <class T>
struct Br<T, std::enable_if_t<std::is_integral<T>::value && !std::is_same<T, bool>::value>> {
  // char is documented as an unsigned 8-bit value on the wire
  static constexpr bool kSigned = std::is_signed<T>::value && !std::is_same<T, char>::value;
  static Sch sch() { Sch s = Sch::Int(kSigned, sizeof(T)); s.name = name(); return s; }
  static std::string name() { return IntName<T>::n(); }
  static void to(const T& x, Val& v) {
    v = Val();
    if (kSigned) v.u = (uint64_t)(int64_t)x;
    else v.u = (uint64_t)(std::make_unsigned_t<T>)x;
  }
  static void from(const Val& v, T& x) { x = (T)v.u; }
};

template <>
struct Br<float> {
  static Sch sch() { Sch s = Sch::Of(K::F32); s.w = 4; s.name = "float"; return s; }
  static std::string name() { return "float"; }
  static void to(const float& x, Val& v) { uint32_t b; memcpy(&b, &x, 4); v = Val::U(b); }
  static void from(const Val& v, float& x) { uint32_t b = (uint32_t)v.u; memcpy(&x, &b, 4); }
};
template <>
struct Br<double> {
  static Sch sch() { Sch s = Sch::Of(K::F64); s.w = 8; s.name = "double"; return s; }
  static std::string name() { return "double"; }
  static void to(const double& x, Val& v) { uint64_t b; memcpy(&b, &x, 8); v = Val::U(b); }
  static void from(const Val& v, double& x) { uint64_t b = v.u; memcpy(&x, &b, 8); }
};

template <class T>
struct EnumName { static std::string n() { return "enum<" + Br<std::underlying_type_t<T>>::name() + ">"; } };

template <class T>
struct Br<T, std::enable_if_t<std::is_enum<T>::value>> {
  using U = std::underlying_type_t<T>;
  static Sch sch() { Sch s = Br<U>::sch(); s.name = name(); return s; }
  static std::string name() { return EnumName<T>::n(); }
  static void to(const T& x, Val& v) { U u; memcpy(&u, &x, sizeof u); Br<U>::to(u, v); }
  static void from(const Val& v, T& x) { U u; Br<U>::from(v, u); memcpy(&x, &u, sizeof u); }
};

// ---------------------------------------------------------------- strings
template <class C, class Tr, class A>
struct Br<std::basic_string<C, Tr, A>> {
  using T = std::basic_string<C, Tr, A>;
  static Sch sch() { Sch s = Sch::Of(K::Str); s.w = sizeof(C); s.name = name(); return s; }
  static std::string name() { return "basic_string<" + Br<C>::name() + ">"; }
  static void to(const T& x, Val& v) { v = Val(); v.raw.assign(reinterpret_cast<const char*>(x.data()), x.size() * sizeof(C)); }
  static void from(const Val& v, T& x) {
    x.assign(v.raw.size() / sizeof(C), C());
    if (!v.raw.empty()) memcpy(&x[0], v.raw.data(), x.size() * sizeof(C));
  }
};

// ---------------------------------------------------------------- integral sequences (BIN)
extern volatile unsigned g_bool_sink;
template <class E>
inline void inspect_elems(const E*, size_t) {}
// "inspecting" a bool means loading it as a bool: UBSan (-fsanitize=bool) reports an invalid representation
inline void inspect_elems(const bool* p, size_t n) {
  for (size_t i = 0; i < n; i++) g_bool_sink = g_bool_sink + (p[i] ? 1u : 0u);
}
template <class E>
inline void bin_to(const E* p, size_t n, Val& v) {
  v = Val();
  if (n) v.raw.assign(reinterpret_cast<const char*>(p), n * sizeof(E));
  inspect_elems(p, n);
}
template <class E>
inline void bin_from(const Val& v, E* p, size_t n) {
  size_t have = v.raw.size() / sizeof(E);
  for (size_t i = 0; i < n; i++) {
    if (i < have) memcpy(&p[i], v.raw.data() + i * sizeof(E), sizeof(E));
    else p[i] = E();
  }
}

template <class E, class A>
struct Br<std::vector<E, A>, std::enable_if_t<std::is_integral<E>::value>> {
  using T = std::vector<E, A>;
  static Sch sch() { Sch s = Sch::Of(K::BinVec); s.w = sizeof(E); s.name = name(); return s; }
  static std::string name() { return "vector<" + Br<E>::name() + ">"; }
  static void to(const T& x, Val& v) { bin_to(x.data(), x.size(), v); }
  static void from(const Val& v, T& x) { x.resize(v.raw.size() / sizeof(E)); bin_from(v, x.data(), x.size()); }
};
template <class E, class A>
struct Br<std::vector<E, A>, std::enable_if_t<!std::is_integral<E>::value>> {
  using T = std::vector<E, A>;
  static Sch sch() { Sch s = Sch::Of(K::AryVec); s.kids = {Br<E>::sch()}; s.name = name(); return s; }
  static std::string name() { return "vector<" + Br<E>::name() + ">"; }
  static void to(const T& x, Val& v) {
    v = Val();
    v.kids.resize(x.size());
    for (size_t i = 0; i < x.size(); i++) Br<E>::to(x[i], v.kids[i]);
  }
  static void from(const Val& v, T& x) {
    x.clear();
    x.resize(v.kids.size());
    for (size_t i = 0; i < x.size(); i++) Br<E>::from(v.kids[i], x[i]);
  }
};

template <class E, size_t N>
struct Br<std::array<E, N>, std::enable_if_t<std::is_integral<E>::value>> {
  using T = std::array<E, N>;
  static Sch sch() { Sch s = Sch::Of(K::BinArr); s.w = sizeof(E); s.n = N; s.boolelem = std::is_same<E, bool>::value; s.name = name(); return s; }
  static std::string name() { return "array<" + Br<E>::name() + "," + std::to_string(N) + ">"; }
  static void to(const T& x, Val& v) { bin_to(x.data(), N, v); }
  static void from(const Val& v, T& x) { bin_from(v, x.data(), N); }
};
template <class E, size_t N>
struct Br<std::array<E, N>, std::enable_if_t<!std::is_integral<E>::value>> {
  using T = std::array<E, N>;
  static Sch sch() { Sch s = Sch::Of(K::AryFix); s.kids.assign(N, Br<E>::sch()); s.name = name(); return s; }
  static std::string name() { return "array<" + Br<E>::name() + "," + std::to_string(N) + ">"; }
  static void to(const T& x, Val& v) { v = Val(); v.kids.resize(N); for (size_t i = 0; i < N; i++) Br<E>::to(x[i], v.kids[i]); }
  static void from(const Val& v, T& x) { for (size_t i = 0; i < N; i++) Br<E>::from(v.kids[i], x[i]); }
};
template <class E, size_t N>
struct Br<E[N], std::enable_if_t<std::is_integral<E>::value>> {
  using T = E[N];
  static Sch sch() { Sch s = Sch::Of(K::BinArr); s.w = sizeof(E); s.n = N; s.boolelem = std::is_same<E, bool>::value; s.name = name(); return s; }
  static std::string name() { return Br<E>::name() + "[" + std::to_string(N) + "]"; }
  static void to(const T& x, Val& v) { bin_to(&x[0], N, v); }
  static void from(const Val& v, T& x) { bin_from(v, &x[0], N); }
};
template <class E, size_t N>
struct Br<E[N], std::enable_if_t<!std::is_integral<E>::value>> {
  using T = E[N];
  static Sch sch() { Sch s = Sch::Of(K::AryFix); s.kids.assign(N, Br<E>::sch()); s.name = name(); return s; }
  static std::string name() { return Br<E>::name() + "[" + std::to_string(N) + "]"; }
  static void to(const T& x, Val& v) { v = Val(); v.kids.resize(N); for (size_t i = 0; i < N; i++) Br<E>::to(x[i], v.kids[i]); }
  static void from(const Val& v, T& x) { for (size_t i = 0; i < N; i++) Br<E>::from(v.kids[i], x[i]); }
};

// ---------------------------------------------------------------- pair / tuple
template <class A, class B>
struct Br<std::pair<A, B>> {
  using T = std::pair<A, B>;
  static Sch sch() { Sch s = Sch::Of(K::AryFix); s.kids = {Br<A>::sch(), Br<B>::sch()}; s.name = name(); return s; }
  static std::string name() { return "pair<" + Br<A>::name() + "," + Br<B>::name() + ">"; }
  static void to(const T& x, Val& v) { v = Val(); v.kids.resize(2); Br<A>::to(x.first, v.kids[0]); Br<B>::to(x.second, v.kids[1]); }
  static void from(const Val& v, T& x) { Br<A>::from(v.kids[0], x.first); Br<B>::from(v.kids[1], x.second); }
};
template <class... Ts>
struct Br<std::tuple<Ts...>> {
  using T = std::tuple<Ts...>;
  static Sch sch() { Sch s = Sch::Of(K::AryFix); s.kids = {Br<Ts>::sch()...}; s.name = name(); return s; }
  static std::string name() {
    std::string n = "tuple<";
    bool first = true;
    (void)std::initializer_list<int>{(n += (first ? "" : ",") + Br<Ts>::name(), first = false, 0)...};
    return n + ">";
  }
  template <size_t... I>
  static void to_(const T& x, Val& v, std::index_sequence<I...>) {
    (void)std::initializer_list<int>{(Br<Ts>::to(std::get<I>(x), v.kids[I]), 0)...};
  }
  template <size_t... I>
  static void from_(const Val& v, T& x, std::index_sequence<I...>) {
    (void)std::initializer_list<int>{(Br<Ts>::from(v.kids[I], std::get<I>(x)), 0)...};
  }
  static void to(const T& x, Val& v) { v = Val(); v.kids.resize(sizeof...(Ts)); to_(x, v, std::index_sequence_for<Ts...>{}); }
  static void from(const Val& v, T& x) { from_(v, x, std::index_sequence_for<Ts...>{}); }
};

// ---------------------------------------------------------------- maps (to() keeps the container's iteration order)
template <class M, bool Unordered>
struct BrMap {
  using KT = typename M::key_type;
  using VT = typename M::mapped_type;
  static Sch sch() {
    Sch s = Sch::Of(K::Map);
    s.kids = {Br<KT>::sch(), Br<VT>::sch()};
    s.unordered = Unordered;
    s.name = name();
    return s;
  }
  static std::string name() { return std::string(Unordered ? "unordered_map<" : "map<") + Br<KT>::name() + "," + Br<VT>::name() + ">"; }
  static void to(const M& x, Val& v) {
    v = Val();
    for (auto& kv : x) {
      Val k, w;
      Br<KT>::to(kv.first, k);
      Br<VT>::to(kv.second, w);
      v.kids.push_back(std::move(k));
      v.kids.push_back(std::move(w));
    }
  }
  static void from(const Val& v, M& x) {
    x.clear();
    for (size_t i = 0; i + 1 < v.kids.size(); i += 2) {
      KT k;
      VT w;
      Br<KT>::from(v.kids[i], k);
      Br<VT>::from(v.kids[i + 1], w);
      x.emplace(std::move(k), std::move(w));
    }
  }
};
template <class Kk, class V, class C, class A>
struct Br<std::map<Kk, V, C, A>> : BrMap<std::map<Kk, V, C, A>, false> {};
template <class Kk, class V, class H, class E, class A>
struct Br<std::unordered_map<Kk, V, H, E, A>> : BrMap<std::unordered_map<Kk, V, H, E, A>, true> {};

// ---------------------------------------------------------------- Optional / Result / Variant
template <class E>
struct Br<nop::Optional<E>> {
  using T = nop::Optional<E>;
  static Sch sch() { Sch s = Sch::Of(K::Opt); s.kids = {Br<E>::sch()}; s.name = name(); return s; }
  static std::string name() { return "Optional<" + Br<E>::name() + ">"; }
  static void to(const T& x, Val& v) {
    v = Val();
    if (!x.empty()) { v.u = 1; v.kids.resize(1); Br<E>::to(x.get(), v.kids[0]); }
  }
  static void from(const Val& v, T& x) {
    if (!v.u) { x.clear(); return; }
    E e{};
    Br<E>::from(v.kids[0], e);
    // in-place construction: for E = Optional<U> a plain assignment would pick the converting Optional<U>&& overload
    x = T(nop::InPlace{}, std::move(e));
  }
};

template <class Err, class E>
struct Br<nop::Result<Err, E>> {
  using T = nop::Result<Err, E>;
  static Sch sch() { Sch s = Sch::Of(K::Res); s.kids = {Br<Err>::sch(), Br<E>::sch()}; s.name = name(); return s; }
  static std::string name() { return "Result<" + Br<Err>::name() + "," + Br<E>::name() + ">"; }
  static void to(const T& x, Val& v) {
    v = Val();
    v.kids.resize(1);
    if (x.has_value()) { v.u = 1; Br<E>::to(x.get(), v.kids[0]); }
    else { Br<Err>::to(x.error(), v.kids[0]); }  // empty result == error None (R9)
  }
  static void from(const Val& v, T& x) {
    if (v.u) { E e{}; Br<E>::from(v.kids[0], e); x = std::move(e); }
    else { Err er; Br<Err>::from(v.kids[0], er); x = er; }
  }
};

template <class... Ts>
struct Br<nop::Variant<Ts...>> {
  using T = nop::Variant<Ts...>;
  static Sch sch() { Sch s = Sch::Of(K::Var); s.kids = {Br<Ts>::sch()...}; s.name = name(); return s; }
  static std::string name() {
    std::string n = "Variant<";
    bool first = true;
    (void)std::initializer_list<int>{(n += (first ? "" : ",") + Br<Ts>::name(), first = false, 0)...};
    return n + ">";
  }
  template <size_t I>
  static void to_one(const T& x, Val& v) {
    using E = std::tuple_element_t<I, std::tuple<Ts...>>;
    if (x.index() == (int32_t)I) { v.kids.resize(1); Br<E>::to(*x.template get<E>(), v.kids[0]); }
  }
  template <size_t... I>
  static void to_(const T& x, Val& v, std::index_sequence<I...>) { (void)std::initializer_list<int>{(to_one<I>(x, v), 0)...}; }
  template <size_t I>
  static void from_one(const Val& v, T& x) {
    using E = std::tuple_element_t<I, std::tuple<Ts...>>;
    if ((int64_t)v.u == (int64_t)I) { E e{}; Br<E>::from(v.kids[0], e); x = std::move(e); }
  }
  template <size_t... I>
  static void from_(const Val& v, T& x, std::index_sequence<I...>) { (void)std::initializer_list<int>{(from_one<I>(v, x), 0)...}; }
  static void to(const T& x, Val& v) {
    v = Val();
    v.u = (uint64_t)(int64_t)x.index();
    to_(x, v, std::index_sequence_for<Ts...>{});
  }
  static void from(const Val& v, T& x) {
    if ((int64_t)v.u < 0) { x = nop::EmptyVariant{}; return; }
    from_(v, x, std::index_sequence_for<Ts...>{});
  }
};

// ---------------------------------------------------------------- Handle (harness policy: int64 value, type tag N)
template <uint64_t TypeTag>
struct TestHandlePolicy {
  using Type = int64_t;
  static constexpr int64_t Default() { return -1; }
  static bool IsValid(const int64_t& v) { return v >= 0; }
  static void Close(int64_t* v) { *v = -1; }
  static int64_t Release(int64_t* v) { int64_t t = *v; *v = -1; return t; }
  static constexpr std::uint64_t HandleType() { return TypeTag; }
};
// a policy whose type tag is narrower than 64 bits (the library's own policies use uint64)
template <class TagT, TagT TypeTag>
struct NarrowTagHandlePolicy : TestHandlePolicy<TypeTag> {
  static constexpr TagT HandleType() { return TypeTag; }
};
template <class P>
struct Br<nop::Handle<P>> {
  using T = nop::Handle<P>;
  static Sch sch() { Sch s = Sch::Of(K::Hnd); s.n = P::HandleType(); s.w = (int)sizeof(decltype(P::HandleType())); s.name = name(); return s; }
  static std::string name() { return "Handle<" + std::to_string(P::HandleType()) + ">"; }
  static void to(const T& x, Val& v) { v = Val::U((uint64_t)(int64_t)x.get()); }
  static void from(const Val& v, T& x) { x = T{(int64_t)v.u}; }
};

// convenience
template <class T>
inline Val to_val(const T& x) { Val v; Br<T>::to(x, v); return v; }

}  // namespace vf
