// Reference encoder / decoder for the libnop wire format, written from docs/format.md only
// (rules R1-R9 of DESIGN.md section 4.3). Independent of the implementation under test.
#pragma once
#include <algorithm>
#include <functional>

#include "val.h"

namespace vf {

// ------------------------------------------------------------------------------------------------
// Field map: every integer encoding and prefix byte the encoder emits, for the mutation operators.
enum class Role : uint8_t {
  Prefix,       // one byte container/type prefix (off,len=1)
  IntValue,     // scalar integer / enum / char value (whole integer encoding)
  BoolValue,
  FloatValue,   // prefix+payload
  ByteLength,   // BIN/STR byte length
  Count,        // ARY/MAP element count (variable)
  FixedCount,   // ARY count of a fixed-size container
  MemberCount,  // STU
  LBLength,     // logical buffer length (bytes or elements)
  VarIndex,
  HandleType,
  HandleRef,
  ErrCode,
  TableHash,
  EntryCount,
  EntryId,
  EntrySize,
  Payload,      // raw bytes
};
struct Field {
  size_t off = 0, len = 0;
  Role role = Role::Payload;
  bool sgn = false;   // declared signedness of an integer field
  int width = 8;      // declared width in bytes
  uint64_t value = 0;
  int depth = 0;
  size_t aux = 0;     // EntrySize: offset of the first value byte; Count: elements
};

struct Enc {
  std::vector<uint8_t> bytes;
  std::vector<Field> fields;
  bool want_fields = false;
  int depth = 0;
  // handle value -> reference the (reference) writer returns; default: encounter order, -1 for empty
  std::function<int64_t(int64_t)> href;
  int64_t next_ref = 0;
  void put(uint8_t b) { bytes.push_back(b); }
  void put_le(uint64_t v, int n) {
    for (int i = 0; i < n; i++) bytes.push_back((uint8_t)(v >> (8 * i)));
  }
  void field(size_t off, size_t len, Role r, bool sgn, int width, uint64_t value, size_t aux = 0) {
    if (!want_fields) return;
    Field f;
    f.off = off; f.len = len; f.role = r; f.sgn = sgn; f.width = width; f.value = value; f.depth = depth; f.aux = aux;
    fields.push_back(f);
  }
};

// size in bytes of the minimal integer encoding
inline size_t uint_size(uint64_t v) { return v < 128 ? 1 : v < 256 ? 2 : v < 65536 ? 3 : v < (1ULL << 32) ? 5 : 9; }
inline size_t sint_size(int64_t v) {
  return (v >= -64 && v <= 127) ? 1 : (v >= -128 && v <= 127) ? 2 : (v >= -32768 && v <= 32767) ? 3
         : (v >= -2147483648LL && v <= 2147483647LL) ? 5 : 9;
}
inline void enc_uint(Enc& e, uint64_t v, Role r, int width = 8) {
  size_t off = e.bytes.size();
  if (v < 128) e.put((uint8_t)v);
  else if (v < 256) { e.put(0x80); e.put_le(v, 1); }
  else if (v < 65536) { e.put(0x81); e.put_le(v, 2); }
  else if (v < (1ULL << 32)) { e.put(0x82); e.put_le(v, 4); }
  else { e.put(0x83); e.put_le(v, 8); }
  e.field(off, e.bytes.size() - off, r, false, width, v);
}
inline void enc_sint(Enc& e, int64_t v, Role r, int width = 8) {
  size_t off = e.bytes.size();
  if (v >= -64 && v <= 127) e.put((uint8_t)(int8_t)v);
  else if (v >= -128 && v <= 127) { e.put(0x84); e.put_le((uint64_t)v, 1); }
  else if (v >= -32768 && v <= 32767) { e.put(0x85); e.put_le((uint64_t)v, 2); }
  else if (v >= -2147483648LL && v <= 2147483647LL) { e.put(0x86); e.put_le((uint64_t)v, 4); }
  else { e.put(0x87); e.put_le((uint64_t)v, 8); }
  e.field(off, e.bytes.size() - off, r, true, width, (uint64_t)v);
}
// encode integer v in an explicitly chosen class prefix (mutation operator M3); returns false if v does not fit
inline bool enc_int_class(std::vector<uint8_t>& out, uint8_t cls, uint64_t v) {
  auto le = [&](int n) { for (int i = 0; i < n; i++) out.push_back((uint8_t)(v >> (8 * i))); };
  int64_t s = (int64_t)v;
  switch (cls) {
    case 0x00: if (v >= 128) return false; out.push_back((uint8_t)v); return true;           // POS
    case 0xc0: if (s < -64 || s > -1) return false; out.push_back((uint8_t)(int8_t)s); return true;  // NEG
    case 0x80: if (v >= 256) return false; out.push_back(0x80); le(1); return true;
    case 0x81: if (v >= 65536) return false; out.push_back(0x81); le(2); return true;
    case 0x82: if (v >= (1ULL << 32)) return false; out.push_back(0x82); le(4); return true;
    case 0x83: out.push_back(0x83); le(8); return true;
    case 0x84: if (s < -128 || s > 127) return false; out.push_back(0x84); le(1); return true;
    case 0x85: if (s < -32768 || s > 32767) return false; out.push_back(0x85); le(2); return true;
    case 0x86: if (s < -2147483648LL || s > 2147483647LL) return false; out.push_back(0x86); le(4); return true;
    case 0x87: out.push_back(0x87); le(8); return true;
  }
  return false;
}

inline size_t refsize(const Sch& s, const Val& v);

inline void refenc(const Sch& s, const Val& v, Enc& e) {
  auto prefix = [&](uint8_t p) {
    e.field(e.bytes.size(), 1, Role::Prefix, false, 1, p);
    e.put(p);
  };
  switch (s.k) {
    case K::Bool: {
      e.field(e.bytes.size(), 1, Role::BoolValue, false, 1, v.u);
      e.put(v.u ? 1 : 0);
      return;
    }
    case K::UInt: enc_uint(e, v.u, Role::IntValue, s.w); return;
    case K::SInt: enc_sint(e, (int64_t)v.u, Role::IntValue, s.w); return;
    case K::F32: {
      size_t off = e.bytes.size();
      e.put(0x88); e.put_le(v.u, 4);
      e.field(off, 5, Role::FloatValue, false, 4, v.u);
      return;
    }
    case K::F64: {
      size_t off = e.bytes.size();
      e.put(0x89); e.put_le(v.u, 8);
      e.field(off, 9, Role::FloatValue, false, 8, v.u);
      return;
    }
    case K::Str:
    case K::BinVec:
    case K::BinArr:
    case K::BinLB: {
      prefix(s.k == K::Str ? 0xbd : 0xbc);
      enc_uint(e, v.raw.size(), s.k == K::BinLB ? Role::LBLength : Role::ByteLength);
      e.field(e.bytes.size(), v.raw.size(), Role::Payload, false, s.w, 0);
      e.bytes.insert(e.bytes.end(), v.raw.begin(), v.raw.end());
      return;
    }
    case K::AryVec:
    case K::AryLB: {
      prefix(0xba);
      enc_uint(e, v.kids.size(), s.k == K::AryLB ? Role::LBLength : Role::Count);
      e.depth++;
      for (auto& k : v.kids) refenc(s.kids[0], k, e);
      e.depth--;
      return;
    }
    case K::AryFix: {
      prefix(0xba);
      enc_uint(e, s.kids.size(), Role::FixedCount);
      e.depth++;
      for (size_t i = 0; i < s.kids.size(); i++) refenc(s.kids[i], v.kids[i], e);
      e.depth--;
      return;
    }
    case K::Map: {
      prefix(0xbb);
      enc_uint(e, v.kids.size() / 2, Role::Count);
      e.depth++;
      for (size_t i = 0; i + 1 < v.kids.size(); i += 2) {
        refenc(s.kids[0], v.kids[i], e);
        refenc(s.kids[1], v.kids[i + 1], e);
      }
      e.depth--;
      return;
    }
    case K::Stu: {
      prefix(0xb9);
      enc_uint(e, s.kids.size(), Role::MemberCount);
      e.depth++;
      for (size_t i = 0; i < s.kids.size(); i++) refenc(s.kids[i], v.kids[i], e);
      e.depth--;
      return;
    }
    case K::Opt: {
      if (!v.u) prefix(0xbe);
      else refenc(s.kids[0], v.kids[0], e);
      return;
    }
    case K::Res: {
      if (v.u) { refenc(s.kids[1], v.kids[0], e); return; }
      prefix(0xb6);
      if (s.kids[0].k == K::SInt) enc_sint(e, (int64_t)v.kids[0].u, Role::ErrCode, s.kids[0].w);
      else enc_uint(e, v.kids[0].u, Role::ErrCode, s.kids[0].w);
      return;
    }
    case K::Var: {
      prefix(0xb8);
      int64_t idx = (int64_t)v.u;
      enc_sint(e, idx, Role::VarIndex, 8);
      e.depth++;
      if (idx < 0) prefix(0xbe);
      else refenc(s.kids[idx], v.kids[0], e);
      e.depth--;
      return;
    }
    case K::Hnd: {
      prefix(0xb7);
      enc_uint(e, s.n, Role::HandleType, s.w ? s.w : 8);
      int64_t hv = (int64_t)v.u;
      int64_t ref = e.href ? e.href(hv) : (hv < 0 ? -1 : e.next_ref++);
      enc_sint(e, ref, Role::HandleRef);
      return;
    }
    case K::Tab: {
      prefix(0xb5);
      enc_uint(e, s.n, Role::TableHash);
      size_t active = 0;
      for (size_t i = 0; i < s.kids.size(); i++)
        if (!s.deleted[i] && v.kids[i].u) active++;
      enc_uint(e, active, Role::EntryCount);
      e.depth++;
      for (size_t i = 0; i < s.kids.size(); i++) {
        if (s.deleted[i] || !v.kids[i].u) continue;
        enc_uint(e, s.ids[i], Role::EntryId);
        size_t est = refsize(s.kids[i], v.kids[i].kids[0]);
        size_t szoff = e.bytes.size();
        enc_uint(e, est, Role::EntrySize);
        size_t start = e.bytes.size();
        if (e.want_fields && !e.fields.empty() && e.fields.back().off == szoff) e.fields.back().aux = start;
        refenc(s.kids[i], v.kids[i].kids[0], e);
        size_t used = e.bytes.size() - start;
        for (size_t p = used; p < est; p++) e.put(0x00);  // R8: padding is zero
      }
      e.depth--;
      return;
    }
  }
}

// Documented size estimate (GetSize): encoding length, except that a handle reference is counted as an I64.
inline size_t refsize(const Sch& s, const Val& v) {
  switch (s.k) {
    case K::Bool: return 1;
    case K::UInt: return uint_size(v.u);
    case K::SInt: return sint_size((int64_t)v.u);
    case K::F32: return 5;
    case K::F64: return 9;
    case K::Str: case K::BinVec: case K::BinArr: case K::BinLB: return 1 + uint_size(v.raw.size()) + v.raw.size();
    case K::AryVec: case K::AryLB: {
      size_t n = 1 + uint_size(v.kids.size());
      for (auto& k : v.kids) n += refsize(s.kids[0], k);
      return n;
    }
    case K::AryFix: case K::Stu: {
      size_t n = 1 + uint_size(s.kids.size());
      for (size_t i = 0; i < s.kids.size(); i++) n += refsize(s.kids[i], v.kids[i]);
      return n;
    }
    case K::Map: {
      size_t n = 1 + uint_size(v.kids.size() / 2);
      for (size_t i = 0; i + 1 < v.kids.size(); i += 2) n += refsize(s.kids[0], v.kids[i]) + refsize(s.kids[1], v.kids[i + 1]);
      return n;
    }
    case K::Opt: return v.u ? refsize(s.kids[0], v.kids[0]) : 1;
    case K::Res:
      if (v.u) return refsize(s.kids[1], v.kids[0]);
      return 1 + (s.kids[0].k == K::SInt ? sint_size((int64_t)v.kids[0].u) : uint_size(v.kids[0].u));
    case K::Var: {
      int64_t idx = (int64_t)v.u;
      return 1 + sint_size(idx) + (idx < 0 ? 1 : refsize(s.kids[idx], v.kids[0]));
    }
    case K::Hnd: return 1 + uint_size(s.n) + 9;
    case K::Tab: {
      size_t active = 0, n = 0;
      for (size_t i = 0; i < s.kids.size(); i++) {
        if (s.deleted[i] || !v.kids[i].u) continue;
        active++;
        size_t est = refsize(s.kids[i], v.kids[i].kids[0]);
        n += uint_size(s.ids[i]) + uint_size(est) + est;
      }
      return 1 + uint_size(s.n) + uint_size(active) + n;
    }
  }
  return 0;
}

inline std::vector<uint8_t> refenc_bytes(const Sch& s, const Val& v) {
  Enc e;
  refenc(s, v, e);
  return e.bytes;
}

// ------------------------------------------------------------------------------------------------
// Reference decoder.
enum class Cat : uint8_t {
  None, Trunc, Limit /* an enclosing table-entry frame is too small */, Prefix, ContainerLength, MemberCount,
  StringLength, VariantType, HandleType, TableHash, DupEntry, HandleResolve
};
inline const char* cat_name(Cat c) {
  static const char* n[] = {"None", "Trunc", "Limit", "Prefix", "ContainerLength", "MemberCount", "StringLength",
                            "VariantType", "HandleType", "TableHash", "DupEntry", "HandleResolve"};
  return n[(int)c];
}

struct Dec {
  const uint8_t* p = nullptr;
  size_t end = 0;     // bytes really available
  size_t bound = ~(size_t)0;  // innermost effective table-entry bound (absolute offset)
  size_t pos = 0;
  Cat cat = Cat::None;
  uint64_t steps = 0;  // work counter (guards the harness against absurd counts)
  uint64_t map_pairs_seen = 0;  // key/value pairs decoded on the wire (incl. repeated keys)
  // handle reference -> handle value; returns false for a resolution error
  std::function<bool(int64_t, int64_t*)> hresolve;

  bool need(size_t k) {
    // bounded readers check their limit before touching the wrapped reader
    if (bound != ~(size_t)0 && (k > bound - std::min(pos, bound) || pos > bound)) { cat = Cat::Limit; return false; }
    if (k > end - std::min(pos, end) || pos > end) { cat = Cat::Trunc; return false; }
    return true;
  }
  bool byte(uint8_t* b) {
    if (!need(1)) return false;
    *b = p[pos++];
    return true;
  }
  bool le(int n, uint64_t* v) {
    if (!need(n)) return false;
    uint64_t x = 0;
    for (int i = 0; i < n; i++) x |= (uint64_t)p[pos + i] << (8 * i);
    pos += n;
    *v = x;
    return true;
  }
  bool fail(Cat c) { cat = c; return false; }
};

inline bool dec_uint(Dec& d, int width, uint64_t* out) {
  uint8_t p;
  if (!d.byte(&p)) return false;
  if (p < 0x80) { *out = p; return true; }
  if (p == 0x80) return d.le(1, out);
  if (p == 0x81 && width >= 2) return d.le(2, out);
  if (p == 0x82 && width >= 4) return d.le(4, out);
  if (p == 0x83 && width >= 8) return d.le(8, out);
  return d.fail(Cat::Prefix);
}
inline bool dec_sint(Dec& d, int width, int64_t* out) {
  uint8_t p;
  if (!d.byte(&p)) return false;
  uint64_t v = 0;
  if (p < 0x80) { *out = p; return true; }
  if (p >= 0xc0) { *out = (int8_t)p; return true; }
  if (p == 0x84) { if (!d.le(1, &v)) return false; *out = (int8_t)v; return true; }
  if (p == 0x85 && width >= 2) { if (!d.le(2, &v)) return false; *out = (int16_t)v; return true; }
  if (p == 0x86 && width >= 4) { if (!d.le(4, &v)) return false; *out = (int32_t)v; return true; }
  if (p == 0x87 && width >= 8) { if (!d.le(8, &v)) return false; *out = (int64_t)v; return true; }
  return d.fail(Cat::Prefix);
}

// does the prefix byte start an encoding of schema s? (used for Optional / Result dispatch)
inline bool prefix_matches(const Sch& s, uint8_t p) {
  switch (s.k) {
    case K::Bool: return p == 0 || p == 1;
    case K::UInt: return p < 0x80 || p == 0x80 || (p == 0x81 && s.w >= 2) || (p == 0x82 && s.w >= 4) || (p == 0x83 && s.w >= 8);
    case K::SInt: return p < 0x80 || p >= 0xc0 || p == 0x84 || (p == 0x85 && s.w >= 2) || (p == 0x86 && s.w >= 4) || (p == 0x87 && s.w >= 8);
    case K::F32: return p == 0x88;
    case K::F64: return p == 0x89;
    case K::Str: return p == 0xbd;
    case K::BinVec: case K::BinArr: case K::BinLB: return p == 0xbc;
    case K::AryVec: case K::AryFix: case K::AryLB: return p == 0xba;
    case K::Map: return p == 0xbb;
    case K::Stu: return p == 0xb9;
    case K::Opt: return p == 0xbe || prefix_matches(s.kids[0], p);
    case K::Res: return p == 0xb6 || prefix_matches(s.kids[1], p);
    case K::Var: return p == 0xb8;
    case K::Hnd: return p == 0xb7;
    case K::Tab: return p == 0xb5;
  }
  return false;
}

inline bool refdec(const Sch& s, Dec& d, Val& out);

inline bool dec_payload(const Sch& s, uint8_t p, Dec& d, Val& out);

inline bool refdec(const Sch& s, Dec& d, Val& out) {
  out = Val();
  d.steps++;
  uint8_t p;
  size_t save = d.pos;
  if (!d.byte(&p)) return false;
  if (!prefix_matches(s, p)) return d.fail(Cat::Prefix);
  // scalar integers re-read their prefix through the class decoder
  switch (s.k) {
    case K::Bool: out.u = p; return true;
    case K::UInt: d.pos = save; return dec_uint(d, s.w, &out.u);
    case K::SInt: { d.pos = save; int64_t v; if (!dec_sint(d, s.w, &v)) return false; out.u = (uint64_t)v; return true; }
    default: return dec_payload(s, p, d, out);
  }
}

inline bool dec_payload(const Sch& s, uint8_t p, Dec& d, Val& out) {
  switch (s.k) {
    case K::Bool: case K::UInt: case K::SInt: {
      // reached through Optional/Result: re-dispatch on the already consumed prefix
      d.pos -= 1;
      if (s.k == K::Bool) { d.pos += 1; out.u = p; return true; }
      if (s.k == K::UInt) return dec_uint(d, s.w, &out.u);
      int64_t v; if (!dec_sint(d, s.w, &v)) return false; out.u = (uint64_t)v; return true;
    }
    case K::F32: return d.le(4, &out.u);
    case K::F64: return d.le(8, &out.u);
    case K::Str: case K::BinVec: case K::BinArr: case K::BinLB: {
      uint64_t n;
      if (!dec_uint(d, 8, &n)) return false;
      const uint64_t w = (uint64_t)s.w;
      if (s.k == K::Str) { if (n % w) return d.fail(Cat::StringLength); }
      else if (s.k == K::BinVec) { if (n % w) return d.fail(Cat::ContainerLength); }
      else if (s.k == K::BinArr) { if (n != s.n * w) return d.fail(Cat::ContainerLength); }
      else {  // BinLB: at most capacity, whole elements, and the count must be representable in the size member
        if ((!s.unbounded && n > s.n * w) || n % w) return d.fail(Cat::ContainerLength);
      }
      if (!d.need(n)) return false;
      out.raw.assign(reinterpret_cast<const char*>(d.p + d.pos), n);
      d.pos += n;
      // R10: the elements of a bool array are bools: F (0x00) or T (0x01) only (R1 applied element-wise)
      if (s.boolelem)
        for (unsigned char c : out.raw)
          if (c > 1) return d.fail(Cat::Prefix);
      return true;
    }
    case K::AryVec: case K::AryLB: {
      uint64_t n;
      if (!dec_uint(d, 8, &n)) return false;
      if (s.k == K::AryLB && !s.unbounded && n > s.n) return d.fail(Cat::ContainerLength);
      for (uint64_t i = 0; i < n; i++) {
        Val k;
        if (!refdec(s.kids[0], d, k)) return false;
        out.kids.push_back(std::move(k));
      }
      return true;
    }
    case K::AryFix: {
      uint64_t n;
      if (!dec_uint(d, 8, &n)) return false;
      if (n != s.kids.size()) return d.fail(Cat::ContainerLength);
      out.kids.resize(n);
      for (uint64_t i = 0; i < n; i++)
        if (!refdec(s.kids[i], d, out.kids[i])) return false;
      return true;
    }
    case K::Map: {
      uint64_t n;
      if (!dec_uint(d, 8, &n)) return false;
      for (uint64_t i = 0; i < n; i++) {
        Val k, v;
        if (!refdec(s.kids[0], d, k)) return false;
        if (!refdec(s.kids[1], d, v)) return false;
        d.map_pairs_seen++;
        bool dup = false;  // R5: a repeated key keeps the first value
        for (size_t j = 0; j + 1 < out.kids.size(); j += 2)
          if (out.kids[j] == k) { dup = true; break; }
        if (!dup) { out.kids.push_back(std::move(k)); out.kids.push_back(std::move(v)); }
      }
      return true;
    }
    case K::Stu: {
      uint64_t n;
      if (!dec_uint(d, 8, &n)) return false;
      if (n != s.kids.size()) return d.fail(Cat::MemberCount);
      out.kids.resize(n);
      for (uint64_t i = 0; i < n; i++)
        if (!refdec(s.kids[i], d, out.kids[i])) return false;
      return true;
    }
    case K::Opt: {
      if (p == 0xbe) { out.u = 0; return true; }
      out.u = 1;
      out.kids.resize(1);
      return dec_payload(s.kids[0], p, d, out.kids[0]);
    }
    case K::Res: {
      out.kids.resize(1);
      if (p == 0xb6) {
        out.u = 0;
        if (s.kids[0].k == K::SInt) { int64_t v; if (!dec_sint(d, s.kids[0].w, &v)) return false; out.kids[0].u = (uint64_t)v; }
        else if (!dec_uint(d, s.kids[0].w, &out.kids[0].u)) return false;
        return true;
      }
      out.u = 1;
      return dec_payload(s.kids[1], p, d, out.kids[0]);
    }
    case K::Var: {
      int64_t idx;
      if (!dec_sint(d, 8, &idx)) return false;  // R2: INT64 class
      if (idx < -1 || idx >= (int64_t)s.kids.size()) return d.fail(Cat::VariantType);
      out.u = (uint64_t)idx;
      if (idx < 0) {
        uint8_t q;
        if (!d.byte(&q)) return false;
        if (q != 0xbe) return d.fail(Cat::Prefix);
        return true;
      }
      out.kids.resize(1);
      return refdec(s.kids[idx], d, out.kids[0]);
    }
    case K::Hnd: {
      uint64_t t;
      if (!dec_uint(d, s.w ? s.w : 8, &t)) return false;  // the tag is an integer of the policy's own tag type (R1: no wider class)
      if (t != s.n) return d.fail(Cat::HandleType);
      int64_t ref;
      if (!dec_sint(d, 8, &ref)) return false;
      int64_t hv = ref;
      if (d.hresolve && !d.hresolve(ref, &hv)) return d.fail(Cat::HandleResolve);
      out.u = (uint64_t)hv;
      return true;
    }
    case K::Tab: {
      uint64_t h, n;
      out.kids.assign(s.kids.size(), Val());
      if (!dec_uint(d, 8, &h)) return false;
      if (h != s.n) return d.fail(Cat::TableHash);
      if (!dec_uint(d, 8, &n)) return false;
      for (uint64_t i = 0; i < n; i++) {
        uint64_t id, sz;
        if (!dec_uint(d, 8, &id)) return false;
        size_t which = s.kids.size();
        for (size_t j = 0; j < s.kids.size(); j++)
          if (s.ids[j] == id) which = j;
        if (which < s.kids.size() && !s.deleted[which] && out.kids[which].u) return d.fail(Cat::DupEntry);
        if (!dec_uint(d, 8, &sz)) return false;
        if (which == s.kids.size() || s.deleted[which]) {
          if (!d.need(sz)) return false;  // skipped without looking at it
          d.pos += sz;
          continue;
        }
        // R6: the value must decode inside [pos, pos+sz); surplus is skipped
        size_t old_bound = d.bound;
        size_t entry_end = (sz > ~(size_t)0 - d.pos) ? ~(size_t)0 - 1 : d.pos + sz;
        d.bound = std::min(old_bound, entry_end);
        out.kids[which].u = 1;
        out.kids[which].kids.resize(1);
        bool ok = refdec(s.kids[which], d, out.kids[which].kids[0]);
        d.bound = old_bound;
        if (!ok) return false;
        size_t pad = entry_end - d.pos;
        if (!d.need(pad)) return false;
        d.pos += pad;
      }
      return true;
    }
  }
  return false;
}

struct DecResult {
  bool ok = false;
  Cat cat = Cat::None;
  size_t consumed = 0;
  Val val;
};
inline DecResult refdec_bytes(const Sch& s, const uint8_t* p, size_t n) {
  Dec d;
  d.p = p;
  d.end = n;
  DecResult r;
  r.ok = refdec(s, d, r.val);
  r.cat = r.ok ? Cat::None : d.cat;
  r.consumed = d.pos;
  return r;
}

// Canonical form for value comparison: map entries sorted by the reference encoding of their keys.
inline void normalize(const Sch& s, Val& v) {
  switch (s.k) {
    case K::AryVec: case K::AryLB:
      for (auto& k : v.kids) normalize(s.kids[0], k);
      break;
    case K::AryFix: case K::Stu:
      for (size_t i = 0; i < v.kids.size() && i < s.kids.size(); i++) normalize(s.kids[i], v.kids[i]);
      break;
    case K::Map: {
      std::vector<std::pair<std::vector<uint8_t>, std::pair<Val, Val>>> es;
      for (size_t i = 0; i + 1 < v.kids.size(); i += 2) {
        normalize(s.kids[0], v.kids[i]);
        normalize(s.kids[1], v.kids[i + 1]);
        es.push_back({refenc_bytes(s.kids[0], v.kids[i]), {v.kids[i], v.kids[i + 1]}});
      }
      std::stable_sort(es.begin(), es.end(), [](const auto& a, const auto& b) { return a.first < b.first; });
      v.kids.clear();
      for (auto& e : es) { v.kids.push_back(e.second.first); v.kids.push_back(e.second.second); }
      break;
    }
    case K::Opt:
      if (v.u && !v.kids.empty()) {
        normalize(s.kids[0], v.kids[0]);
        // Optional<Optional<U>>: "engaged, holding an empty optional" and "empty" share the encoding NIL; the format cannot
        // tell them apart and a reader yields the empty outer optional
        if (s.kids[0].k == K::Opt && !v.kids[0].u) v = Val();
      }
      break;
    case K::Res:
      if (v.u && !v.kids.empty()) {
        normalize(s.kids[1], v.kids[0]);
        // Result<E, Result<E,U>>: "holds a value which is a Result holding error c" and "holds error c" share the encoding ERR c; the
        // format cannot tell them apart and a reader yields the outer error (same situation as Optional<Optional<U>>)
        if (s.kids[1].k == K::Res && !v.kids[0].u) { Val inner = v.kids[0]; v = inner; }
      }
      break;
    case K::Var: { int64_t i = (int64_t)v.u; if (i >= 0 && (size_t)i < s.kids.size() && !v.kids.empty()) normalize(s.kids[i], v.kids[0]); break; }
    case K::Tab:
      for (size_t i = 0; i < v.kids.size() && i < s.kids.size(); i++)
        if (v.kids[i].u && !v.kids[i].kids.empty()) normalize(s.kids[i], v.kids[i].kids[0]);
      break;
    default: break;
  }
}

}  // namespace vf
