// Finite, deterministic, depth-indexed value domains for every schema (DESIGN.md section 4.2).
// No randomness: the same schema and tier always yield the same list in the same order (simplest first).
#pragma once
#include <algorithm>
#include <set>

#include "refcodec.h"

namespace vf {

struct DomainCfg {
  size_t cap = 400;       // per-type cap on composite products (narrowing is reported, never random)
  bool thorough = false;
  bool narrowed = false;  // set when a product had to be narrowed
  bool big_strings = true;  // include the 65535/65536-byte boundary strings at depth 0
};

inline std::vector<uint64_t> int_domain(bool sgn, int w, int depth) {
  const int bits = 8 * w;
  std::vector<int64_t> sc;
  std::vector<uint64_t> out;
  const uint64_t umax = bits == 64 ? ~0ULL : ((1ULL << bits) - 1);
  const int64_t smax = (int64_t)(umax >> 1), smin = -smax - 1;
  auto fits_u = [&](uint64_t v) { return v <= umax; };
  auto push_u = [&](uint64_t v) { if (fits_u(v) && std::find(out.begin(), out.end(), v) == out.end()) out.push_back(v); };
  auto push_s = [&](int64_t v) {
    if (v < smin || v > smax) return;
    uint64_t u = (uint64_t)v;
    if (std::find(out.begin(), out.end(), u) == out.end()) out.push_back(u);
  };
  if (!sgn) {
    if (depth >= 2) { push_u(1); push_u(200); return out; }
    if (depth == 1) { push_u(0); push_u(127); push_u(128); push_u(umax); return out; }
    for (uint64_t v : {0ULL, 1ULL, 2ULL, 63ULL, 64ULL, 126ULL, 127ULL, 128ULL, 129ULL, 254ULL, 255ULL, 256ULL, 257ULL, 32767ULL,
                       32768ULL, 65534ULL, 65535ULL, 65536ULL, 65537ULL, 0x7fffffffULL, 0x80000000ULL, 0xfffffffeULL,
                       0xffffffffULL, 0x100000000ULL, 0x100000001ULL, 0x7fffffffffffffffULL, 0x8000000000000000ULL})
      push_u(v);
    push_u(umax - 1);
    push_u(umax);
    for (int k = 0; k < bits; k++) { push_u(1ULL << k); push_u((1ULL << k) - 1); push_u((1ULL << k) + 1); }
    // lane-distinct patterns (catch swapped / dropped byte lanes)
    push_u(0x0807060504030201ULL & umax);
    push_u(0xf1e2d3c4b5a69788ULL & umax);
    return out;
  }
  if (depth >= 2) { push_s(-3); push_s(w == 1 ? 100 : 300); return out; }
  if (depth == 1) { push_s(smin); push_s(-65); push_s(0); push_s(w == 1 ? 127 : 128); return out; }
  for (int64_t v : {0LL, 1LL, -1LL, 2LL, -2LL, 63LL, 64LL, -63LL, -64LL, -65LL, 126LL, 127LL, 128LL, 129LL, -127LL, -128LL, -129LL,
                    255LL, 256LL, -255LL, -256LL, 32767LL, 32768LL, -32767LL, -32768LL, -32769LL, 65535LL, 65536LL, -65536LL,
                    2147483647LL, 2147483648LL, -2147483647LL, -2147483648LL, -2147483649LL, 4294967295LL, 4294967296LL,
                    -4294967296LL})
    push_s(v);
  push_s(smax); push_s(smax - 1); push_s(smin); push_s(smin + 1);
  for (int k = 0; k < bits - 1; k++) {
    int64_t p = (int64_t)(1ULL << k);
    push_s(p); push_s(p - 1); push_s(p + 1); push_s(-p); push_s(-p - 1); push_s(-p + 1);
  }
  push_s((int64_t)(0x0807060504030201ULL & (uint64_t)smax));
  {
    // negative lane-distinct pattern, sign-extended from the type's width
    uint64_t pat = 0xf1e2d3c4b5a69788ULL & umax;
    int64_t v = bits == 64 ? (int64_t)pat : (int64_t)(pat | ~umax);
    if (!(pat >> (bits - 1) & 1)) v = (int64_t)pat;
    push_s(v);
  }
  return out;
}

inline std::string pattern_bytes(size_t nbytes, int w, bool boolelem, unsigned salt = 0) {
  std::string s(nbytes, '\0');
  for (size_t i = 0; i < nbytes; i++) {
    if (boolelem) s[i] = (char)((i + salt) & 1);
    else s[i] = (char)(((i + salt) * 37 + 11 + (i / (size_t)w) * 3) & 0xff);
  }
  return s;
}

inline std::vector<std::vector<Val>> combine(const std::vector<std::vector<Val>>& lists, DomainCfg& cfg) {
  std::vector<std::vector<Val>> out;
  if (lists.empty()) { out.push_back({}); return out; }
  double total = 1;
  for (auto& l : lists) total *= (double)l.size();
  if (total <= (double)cfg.cap) {
    std::vector<size_t> idx(lists.size(), 0);
    while (true) {
      std::vector<Val> c;
      for (size_t i = 0; i < lists.size(); i++) c.push_back(lists[i][idx[i]]);
      out.push_back(std::move(c));
      size_t k = lists.size();
      while (k > 0) {
        k--;
        if (++idx[k] < lists[k].size()) break;
        idx[k] = 0;
        if (k == 0) return out;
      }
    }
  }
  cfg.narrowed = true;
  // narrowed deterministically: every value of every position once (others at their first value) + diagonals
  std::set<std::vector<size_t>> seen;
  auto emit = [&](const std::vector<size_t>& idx) {
    if (!seen.insert(idx).second) return;
    std::vector<Val> c;
    for (size_t i = 0; i < lists.size(); i++) c.push_back(lists[i][idx[i]]);
    out.push_back(std::move(c));
  };
  std::vector<size_t> base(lists.size(), 0);
  emit(base);
  for (size_t i = 0; i < lists.size(); i++)
    for (size_t j = 0; j < lists[i].size(); j++) { auto x = base; x[i] = j; emit(x); }
  size_t mx = 0;
  for (auto& l : lists) mx = std::max(mx, l.size());
  for (size_t k = 0; k < mx; k++) {
    std::vector<size_t> x(lists.size());
    for (size_t i = 0; i < lists.size(); i++) x[i] = (k + i) % lists[i].size();
    emit(x);
    for (size_t i = 0; i < lists.size(); i++) x[i] = k % lists[i].size();
    emit(x);
  }
  return out;
}

inline std::vector<Val> enumerate(const Sch& s, int depth, DomainCfg& cfg);

// length lists: numbers of elements so that the BYTE count sits on every length-prefix class boundary
inline std::vector<size_t> byte_boundary_counts(int w, int depth, const DomainCfg& cfg) {
  std::vector<size_t> c;
  auto push = [&](size_t n) { if (std::find(c.begin(), c.end(), n) == c.end()) c.push_back(n); };
  if (depth >= 2) { push(0); push(2); return c; }
  if (depth == 1) { push(0); push(1); push(3); return c; }
  push(0); push(1); push(2); push(3);
  for (size_t bytes : {(size_t)127, (size_t)128, (size_t)255, (size_t)256}) { push(bytes / w); push((bytes + w - 1) / w); }
  if (cfg.big_strings) { push(65535 / w); push((65536 + w - 1) / w); }
  return c;
}

inline std::vector<Val> enumerate(const Sch& s, int depth, DomainCfg& cfg) {
  std::vector<Val> out;
  switch (s.k) {
    case K::Bool: out.push_back(Val::U(0)); out.push_back(Val::U(1)); return out;
    case K::UInt: case K::SInt:
      for (uint64_t u : int_domain(s.k == K::SInt, s.w, depth)) out.push_back(Val::U(u));
      return out;
    case K::F32: {
      std::vector<uint64_t> b = {0x3f800000, 0x7fa12345};
      if (depth == 0) b = {0x00000000, 0x80000000, 0x3f800000, 0xbfc00000, 0x00000001, 0x7f7fffff, 0x7f800000, 0xff800000,
                           0x7fc00000, 0x7fa12345, 0xffc00001, 0x04030201};
      else if (depth >= 2) b = {0xbfc00000};
      for (auto x : b) out.push_back(Val::U(x));
      return out;
    }
    case K::F64: {
      std::vector<uint64_t> b = {0x3ff0000000000000ULL, 0x7ff4123456789abcULL};
      if (depth == 0) b = {0, 0x8000000000000000ULL, 0x3ff0000000000000ULL, 0xbff8000000000000ULL, 1, 0x7fefffffffffffffULL,
                           0x7ff0000000000000ULL, 0xfff0000000000000ULL, 0x7ff8000000000000ULL, 0x7ff4123456789abcULL,
                           0xfff8000000000001ULL, 0x0807060504030201ULL};
      else if (depth >= 2) b = {0xbff8000000000000ULL};
      for (auto x : b) out.push_back(Val::U(x));
      return out;
    }
    case K::Str: case K::BinVec: {
      for (size_t n : byte_boundary_counts(s.w, depth, cfg)) {
        Val v;
        v.raw = pattern_bytes(n * s.w, s.w, s.boolelem, (unsigned)n);
        out.push_back(std::move(v));
      }
      return out;
    }
    case K::BinArr: {
      Val a, b, c;
      a.raw = pattern_bytes(s.n * s.w, s.w, s.boolelem, 1);
      out.push_back(a);
      if (depth <= 1) {
        b.raw = std::string(s.n * s.w, s.boolelem ? '\1' : '\xff');
        out.push_back(b);
        c.raw = std::string(s.n * s.w, '\0');
        out.push_back(c);
      }
      return out;
    }
    case K::BinLB: {
      std::vector<size_t> counts;
      auto push = [&](size_t n) { if (n <= s.n && std::find(counts.begin(), counts.end(), n) == counts.end()) counts.push_back(n); };
      push(0); push(1); push(s.n);
      if (depth == 0) {
        push(s.n - 1); push(2);
        for (size_t bytes : {(size_t)127, (size_t)128, (size_t)255, (size_t)256, (size_t)65535, (size_t)65536}) { push(bytes / s.w); push((bytes + s.w - 1) / s.w); }
        for (size_t n : {(size_t)127, (size_t)128, (size_t)255, (size_t)256}) push(n);
      }
      for (size_t n : counts) {
        Val v;
        v.raw = pattern_bytes(n * s.w, s.w, s.boolelem, (unsigned)n);
        out.push_back(std::move(v));
      }
      return out;
    }
    case K::AryVec: case K::AryLB: {
      std::vector<Val> inner = enumerate(s.kids[0], depth + 1, cfg);
      std::vector<size_t> counts;
      auto push = [&](size_t n) {
        if (s.k == K::AryLB && n > s.n) return;
        if (std::find(counts.begin(), counts.end(), n) == counts.end()) counts.push_back(n);
      };
      if (depth >= 2) { push(0); push(1); }
      else if (depth == 1) { push(0); push(1); push(2); }
      else {
        push(0); push(1); push(2); push(3); push(127); push(128);
        if (cfg.thorough || s.kids[0].nodes() == 1) { push(255); push(256); }
      }
      if (s.k == K::AryLB) { push(s.n); if (depth == 0 && s.n > 0) push(s.n - 1); }
      for (size_t n : counts) {
        if (n == 1) {
          for (auto& iv : inner) { Val v; v.kids.push_back(iv); out.push_back(std::move(v)); }
          continue;
        }
        Val v;
        for (size_t i = 0; i < n; i++) v.kids.push_back(inner[(i + n) % inner.size()]);
        out.push_back(std::move(v));
      }
      return out;
    }
    case K::AryFix: case K::Stu: {
      std::vector<std::vector<Val>> lists;
      // containers of one or two members keep the depth of their members: a boundary-length string or vector
      // is then also explored as a structure member / pair element (the product is narrowed deterministically)
      const int kd = s.kids.size() <= 2 ? depth : depth + 1;
      for (auto& k : s.kids) lists.push_back(enumerate(k, kd, cfg));
      for (auto& c : combine(lists, cfg)) { Val v; v.kids = std::move(c); out.push_back(std::move(v)); }
      return out;
    }
    case K::Map: {
      std::vector<Val> keys = enumerate(s.kids[0], depth + 1, cfg);
      std::vector<Val> vals = enumerate(s.kids[1], depth + 1, cfg);
      // distinct keys only
      std::vector<Val> uk;
      for (auto& k : keys) if (std::find(uk.begin(), uk.end(), k) == uk.end()) uk.push_back(k);
      auto key_at = [&](size_t i, Val* k) -> bool {
        if (i < uk.size()) { *k = uk[i]; return true; }
        const Sch& ks = s.kids[0];
        if ((ks.k == K::UInt || ks.k == K::SInt) && ks.w >= 2) {
          *k = Val::U(1000 + i);
          return std::find(uk.begin(), uk.end(), *k) == uk.end();
        }
        if (ks.k == K::Str && ks.w == 1) { Val v; v.raw = "k" + std::to_string(i); *k = v; return std::find(uk.begin(), uk.end(), *k) == uk.end(); }
        return false;
      };
      std::vector<size_t> counts = depth >= 2 ? std::vector<size_t>{0, 1} : depth == 1 ? std::vector<size_t>{0, 1, 2} : std::vector<size_t>{0, 1, 2, 3, 128};
      for (size_t n : counts) {
        Val v;
        bool ok = true;
        for (size_t i = 0; i < n && ok; i++) {
          Val k;
          ok = key_at(i, &k);
          if (!ok) break;
          v.kids.push_back(k);
          v.kids.push_back(vals[(i + n) % vals.size()]);
        }
        if (ok) out.push_back(std::move(v));
      }
      // every value once with the first key (covers the mapped type's full inner domain)
      if (depth == 0 && !uk.empty())
        for (auto& w : vals) { Val v; v.kids.push_back(uk[0]); v.kids.push_back(w); out.push_back(std::move(v)); }
      return out;
    }
    case K::Opt: {
      out.push_back(Val());
      for (auto& iv : enumerate(s.kids[0], depth, cfg)) { Val v; v.u = 1; v.kids.push_back(iv); out.push_back(std::move(v)); }
      return out;
    }
    case K::Res: {
      std::vector<uint64_t> errs = {0};
      for (uint64_t e : int_domain(s.kids[0].k == K::SInt, s.kids[0].w, 1)) if (e != 0) errs.push_back(e);
      if (depth >= 1) errs.resize(std::min<size_t>(errs.size(), 3));
      for (uint64_t e : errs) { Val v; v.u = 0; v.kids.push_back(Val::U(e)); out.push_back(std::move(v)); }
      for (auto& iv : enumerate(s.kids[1], depth, cfg)) { Val v; v.u = 1; v.kids.push_back(iv); out.push_back(std::move(v)); }
      return out;
    }
    case K::Var: {
      Val e; e.u = (uint64_t)(int64_t)-1; out.push_back(e);
      for (size_t i = 0; i < s.kids.size(); i++)
        for (auto& iv : enumerate(s.kids[i], depth + 1, cfg)) { Val v; v.u = i; v.kids.push_back(iv); out.push_back(std::move(v)); }
      return out;
    }
    case K::Hnd: {
      out.push_back(Val::U((uint64_t)(int64_t)-1));
      out.push_back(Val::U(5));
      if (depth == 0) out.push_back(Val::U(70000));
      return out;
    }
    case K::Tab: {
      std::vector<std::vector<Val>> lists;
      for (size_t i = 0; i < s.kids.size(); i++) {
        std::vector<Val> l;
        l.push_back(Val());  // absent
        if (!s.deleted[i])
          for (auto& iv : enumerate(s.kids[i], s.kids.size() <= 2 ? depth : depth + 1, cfg)) { Val v; v.u = 1; v.kids.push_back(iv); l.push_back(std::move(v)); }
        lists.push_back(std::move(l));
      }
      for (auto& c : combine(lists, cfg)) { Val v; v.kids = std::move(c); out.push_back(std::move(v)); }
      return out;
    }
  }
  return out;
}

// which state every sum type of a value is in: two values with the same encoding can still be different objects
// (Optional<Optional<U>> engaged-but-empty vs empty, Result<E,Result<E,U>> value-holding-an-error vs error) and the WRITER has to
// cope with both
inline void sum_states(const Sch& s, const Val& v, std::string& out) {
  switch (s.k) {
    case K::Opt: out += v.u ? 'S' : 'N'; if (v.u && !v.kids.empty()) sum_states(s.kids[0], v.kids[0], out); break;
    case K::Res: out += v.u ? 'V' : 'E'; if (v.u && !v.kids.empty()) sum_states(s.kids[1], v.kids[0], out); break;
    case K::Var: {
      const int64_t i = (int64_t)v.u;
      out += (char)('a' + (i < 0 ? 25 : i % 25));
      if (i >= 0 && (size_t)i < s.kids.size() && !v.kids.empty()) sum_states(s.kids[i], v.kids[0], out);
      break;
    }
    case K::AryVec: case K::AryLB:
      for (auto& k : v.kids) sum_states(s.kids[0], k, out);
      break;
    case K::AryFix: case K::Stu:
      for (size_t i = 0; i < v.kids.size() && i < s.kids.size(); i++) sum_states(s.kids[i], v.kids[i], out);
      break;
    case K::Map:
      for (size_t i = 0; i + 1 < v.kids.size(); i += 2) { sum_states(s.kids[0], v.kids[i], out); sum_states(s.kids[1], v.kids[i + 1], out); }
      break;
    case K::Tab:
      for (size_t i = 0; i < v.kids.size() && i < s.kids.size(); i++) {
        out += v.kids[i].u ? 'e' : '-';
        if (v.kids[i].u && !v.kids[i].kids.empty()) sum_states(s.kids[i], v.kids[i].kids[0], out);
      }
      break;
    default: break;
  }
}
inline std::vector<Val> domain(const Sch& s, DomainCfg& cfg, int depth = 0) {
  std::vector<Val> all = enumerate(s, depth, cfg);
  // exact de-duplication (same bytes AND every sum type in the same state), order preserved
  std::vector<Val> out;
  std::set<std::vector<uint8_t>> seen;
  for (auto& v : all) {
    Enc e;
    e.href = [](int64_t hv) { return hv; };  // keep distinct handle values distinct
    refenc(s, v, e);
    std::string st;
    sum_states(s, v, st);
    std::vector<uint8_t> key = e.bytes;
    key.push_back(0xff);
    key.insert(key.end(), st.begin(), st.end());
    if (seen.insert(key).second) out.push_back(v);
  }
  return out;
}

}  // namespace vf
