// C13: Optional / Entry / Result / Status keep a consistent state and element lifetime.
//  * explicit-state search to fixpoint over {Optional<TrA> o1,o2; Entry<TrA,7> e; Optional<int> oi} and over
//    {Result<E,TrA> r1,r2; Result<E,void> rv} with lifetime-tracking elements, against option / 3-state-sum models
//  * all 18 relational operators x all ordered pairs of operand states {empty,1,2,3}
//  * Status<T>::GetErrorMessage for every ErrorStatus
#include <array>
#include <deque>
#include <functional>
#include <limits>
#include <map>
#include <set>

#include <nop/status.h>
#include <nop/table.h>
#include <nop/types/optional.h>
#include <nop/types/result.h>

#include "report.h"
#include "tracked.h"

using namespace vf;
static Report R;
static Args A;
// Constructions can be made to throw (life().throw_countdown): the fault alphabet of the throw:* operations. The element
// throws before it writes to its storage: C13 says nothing about what a constructor that fails half way leaves behind
// (Result keeps its error code in the same union), only that a value that was never constructed is not reported as held.
struct TrA : Tr<1, true, true> {
  TrA() : Tr<1, true, true>() {}
  TrA(int x) : Tr<1, true, true>(x) {}  // implicit: Optional<TrA> is assignable from Optional<int>
};
// None is deliberately NOT the zero enumerator (nothing in nop::Result requires that), and the zero enumerator is an ordinary error
enum class E { Zero = 0, A = 1, None = 77, B = 200 };
// the models number errors 0 (= none), 1, 200, 300 (= the zero enumerator)
static E toE(int code) { return code == 0 ? E::None : code == 300 ? E::Zero : (E)code; }
static int fromE(E e) { return e == E::None ? 0 : e == E::Zero ? 300 : (int)e; }

// ================================================================ optional world
struct MO { bool on = false; int v = 0; bool unspec = false; bool open = false; };  // open: taken from the real object at the next comparison
struct OModel { MO o[4]; };  // 0:o1 1:o2 2:e 3:oi(int)
struct OWorld {
  nop::Optional<TrA>* o1; nop::Optional<TrA>* o2; nop::Entry<TrA, 7>* e; nop::Optional<int>* oi;
  OWorld() : o1(new nop::Optional<TrA>()), o2(new nop::Optional<TrA>()), e(new nop::Entry<TrA, 7>()), oi(new nop::Optional<int>()) {}
  ~OWorld() { delete o1; delete o2; delete e; delete oi; }
};
enum { O_SETL, O_SETR, O_COPY, O_MOVE, O_CLEAR, O_TAKE, O_FROM_INT_COPY, O_FROM_INT_MOVE, O_RB_DEFAULT, O_RB_VALUE, O_RB_INPLACE,
       O_RB_COPY, O_RB_MOVE, O_INT_SET, O_INT_CLEAR, O_INT_COPYSELF, O_OBSERVE, O_RB_FROM_U, O_THROW_SETL, O_THROW_COPY, O_THROW_FROM_INT };
static const char* kON[] = {"=lvalue", "=rvalue", "copy=", "move=", "clear", "take", "=Optional<int>", "=move(Optional<int>)", "rebuild()",
                            "rebuild(value)", "rebuild(InPlace)", "rebuild(copy)", "rebuild(move)", "oi=", "oi.clear", "oi=oi", "observe",
                            "rebuild(int)", "throw:=lvalue", "throw:copy=", "throw:=Optional<int>"};
struct Op { int code, x, y; };
static const char* kOV[] = {"o1", "o2", "e", "oi"};
static std::string oopname(const Op& o) {
  std::string s = std::string(kOV[o.x]) + "." + kON[o.code];
  if (o.code == O_COPY || o.code == O_MOVE || o.code == O_RB_COPY || o.code == O_RB_MOVE || o.code == O_THROW_COPY) return s + "(" + kOV[o.y] + ")";
  if (o.code == O_SETL || o.code == O_SETR || o.code == O_RB_VALUE || o.code == O_RB_INPLACE || o.code == O_INT_SET || o.code == O_RB_FROM_U || o.code == O_THROW_SETL) return s + "(" + std::to_string(o.y) + ")";
  return s;
}
static std::vector<Op> oalphabet() {
  std::vector<Op> ops;
  for (int x = 0; x < 3; x++) {
    for (int v : {1, 2}) { ops.push_back({O_SETL, x, v}); ops.push_back({O_SETR, x, v}); }
    for (int y = 0; y < 3; y++) {
      ops.push_back({O_COPY, x, y});
      ops.push_back({O_MOVE, x, y});
      if (x != y && x < 2 && y < 2) { ops.push_back({O_RB_COPY, x, y}); ops.push_back({O_RB_MOVE, x, y}); }
    }
    ops.push_back({O_CLEAR, x, 0});
    ops.push_back({O_TAKE, x, 0});
    ops.push_back({O_FROM_INT_COPY, x, 0});
    ops.push_back({O_FROM_INT_MOVE, x, 0});
    ops.push_back({O_RB_DEFAULT, x, 0});
    ops.push_back({O_RB_VALUE, x, 2});
    ops.push_back({O_RB_INPLACE, x, 1});
    ops.push_back({O_RB_FROM_U, x, 2});
    ops.push_back({O_OBSERVE, x, 0});
    // the next construction of an element throws
    ops.push_back({O_THROW_SETL, x, 2});
    for (int y = 0; y < 3; y++) if (y != x) ops.push_back({O_THROW_COPY, x, y});
    ops.push_back({O_THROW_FROM_INT, x, 0});
  }
  ops.push_back({O_INT_SET, 3, 1});
  ops.push_back({O_INT_SET, 3, 2});
  ops.push_back({O_INT_CLEAR, 3, 0});
  ops.push_back({O_INT_COPYSELF, 3, 0});
  return ops;
}
static nop::Optional<TrA>& oref(OWorld& w, int x) { return x == 0 ? *w.o1 : x == 1 ? *w.o2 : static_cast<nop::Optional<TrA>&>(*w.e); }

// real step; `observed_src_on` reports the engaged flag of a moved-from source after move *construction*
static void oreal(OWorld& w, const Op& o) {
  switch (o.code) {
    case O_SETL: { TrA t{o.y}; if (o.x == 2) *w.e = t; else oref(w, o.x) = t; break; }
    case O_SETR: if (o.x == 2) *w.e = TrA{o.y}; else oref(w, o.x) = TrA{o.y}; break;
    case O_COPY:
      if (o.x == 2 && o.y == 2) *w.e = *w.e;
      else if (o.x == 2) *w.e = oref(w, o.y);   // Entry inherits Optional's assignment operators
      else oref(w, o.x) = oref(w, o.y);
      break;
    case O_MOVE:
      if (o.x == 2 && o.y == 2) *w.e = std::move(*w.e);
      else if (o.x == 2) *w.e = std::move(oref(w, o.y));
      else oref(w, o.x) = std::move(oref(w, o.y));
      break;
    case O_CLEAR: if (o.x == 2) w.e->clear(); else oref(w, o.x).clear(); break;
    case O_TAKE: { if (!oref(w, o.x).empty()) { TrA t = oref(w, o.x).take(); (void)t; } break; }
    case O_FROM_INT_COPY: if (o.x == 2) *w.e = *w.oi; else oref(w, o.x) = *w.oi; break;
    case O_FROM_INT_MOVE: if (o.x == 2) *w.e = std::move(*w.oi); else oref(w, o.x) = std::move(*w.oi); break;
    case O_RB_DEFAULT:
      if (o.x == 0) { delete w.o1; w.o1 = new nop::Optional<TrA>(); }
      else if (o.x == 1) { delete w.o2; w.o2 = new nop::Optional<TrA>(); }
      else { delete w.e; w.e = new nop::Entry<TrA, 7>(); }
      break;
    case O_RB_VALUE:
      if (o.x == 0) { delete w.o1; w.o1 = new nop::Optional<TrA>(TrA{o.y}); }
      else if (o.x == 1) { delete w.o2; TrA t{o.y}; w.o2 = new nop::Optional<TrA>(t); }
      else { delete w.e; w.e = new nop::Entry<TrA, 7>(TrA{o.y}); }
      break;
    case O_RB_INPLACE:
      if (o.x == 0) { delete w.o1; w.o1 = new nop::Optional<TrA>(nop::InPlace{}, o.y); }
      else if (o.x == 1) { delete w.o2; w.o2 = new nop::Optional<TrA>(nop::InPlace{}, o.y); }
      else { delete w.e; w.e = new nop::Entry<TrA, 7>(nop::InPlace{}, o.y); }
      break;
    case O_RB_FROM_U:  // converting constructor from U (int -> TrA)
      if (o.x == 0) { delete w.o1; w.o1 = new nop::Optional<TrA>(o.y); }
      else if (o.x == 1) { delete w.o2; w.o2 = new nop::Optional<TrA>(o.y); }
      else { delete w.e; w.e = new nop::Entry<TrA, 7>(o.y); }
      break;
    case O_RB_COPY:
      if (o.x == 0) { delete w.o1; w.o1 = new nop::Optional<TrA>(*w.o2); }
      else { delete w.o2; w.o2 = new nop::Optional<TrA>(*w.o1); }
      break;
    case O_RB_MOVE:
      if (o.x == 0) { delete w.o1; w.o1 = new nop::Optional<TrA>(std::move(*w.o2)); }
      else { delete w.o2; w.o2 = new nop::Optional<TrA>(std::move(*w.o1)); }
      break;
    case O_INT_SET: *w.oi = o.y; break;
    case O_INT_CLEAR: w.oi->clear(); break;
    case O_INT_COPYSELF: *w.oi = *w.oi; break;
    case O_OBSERVE: break;
    case O_THROW_SETL: {
      TrA t{o.y};
      life().throw_countdown = 1;
      try { if (o.x == 2) *w.e = t; else oref(w, o.x) = t; } catch (const ArmedThrow&) {}
      life().throw_countdown = 0;
      break;
    }
    case O_THROW_COPY:
      life().throw_countdown = 1;
      try { if (o.x == 2) *w.e = oref(w, o.y); else oref(w, o.x) = oref(w, o.y); } catch (const ArmedThrow&) {}
      life().throw_countdown = 0;
      break;
    case O_THROW_FROM_INT:
      life().throw_countdown = 1;
      try { if (o.x == 2) *w.e = *w.oi; else oref(w, o.x) = *w.oi; } catch (const ArmedThrow&) {}
      life().throw_countdown = 0;
      break;
  }
}
static void omodel(OModel& m, const Op& o) {
  MO& t = m.o[o.x];
  switch (o.code) {
    case O_SETL: case O_SETR: case O_RB_VALUE: case O_RB_INPLACE: case O_RB_FROM_U: t = {true, o.y, false}; break;
    case O_COPY: if (o.x != o.y) t = m.o[o.y]; break;
    case O_MOVE:
      if (o.x != o.y) { t = m.o[o.y]; m.o[o.y] = MO(); }  // "moving from an object by assignment leaves it empty"
      break;
    case O_CLEAR: case O_RB_DEFAULT: t = MO(); break;
    case O_TAKE: if (t.on) t.unspec = true; break;
    case O_FROM_INT_COPY: t = m.o[3]; break;
    case O_FROM_INT_MOVE: t = m.o[3]; m.o[3] = MO(); break;
    case O_RB_COPY: t = m.o[o.y]; break;
    case O_RB_MOVE: t = m.o[o.y]; if (m.o[o.y].on) m.o[o.y].unspec = true; break;  // by construction: flag unchanged
    case O_INT_SET: t = {true, o.y, false}; break;
    case O_INT_CLEAR: t = MO(); break;
    // A construction that throws: an engaged destination is assigned to (no construction, nothing throws); an empty one
    // cannot have gained a value. Whether anything else changed is left open and read back from the object - the
    // lifetime accounting of ocompare decides whether that state is a consistent one.
    case O_THROW_SETL: if (t.on && !t.open) t = {true, o.y, false, false}; else t.open = true; break;
    case O_THROW_COPY: case O_THROW_FROM_INT: {
      const MO src = m.o[o.code == O_THROW_COPY ? o.y : 3];
      if (t.open || src.open) t.open = true;
      else if (!src.on) t = MO();
      else if (t.on && o.code == O_THROW_COPY) t = src;  // element assignment; from Optional<int> a temporary is constructed
      else t.open = true;
      break;
    }
    default: break;
  }
}
static std::string ocanon(const OModel& m) {
  std::string s;
  for (int i = 0; i < 4; i++) s += std::string(i ? " " : "") + (m.o[i].on ? (m.o[i].unspec ? "?" : std::to_string(m.o[i].v)) : "-");
  return s;
}
static std::string ocompare(OWorld& w, OModel& m) {
  long live = 0;
  for (int i = 0; i < 3; i++) {
    nop::Optional<TrA>& o = oref(w, i);
    if (m.o[i].open) {
      m.o[i] = MO();
      m.o[i].on = !o.empty();
      if (m.o[i].on) { o.get().check("get after a throwing assignment"); m.o[i].v = o.get().v; }
    }
    if (o.empty() == m.o[i].on) return std::string(kOV[i]) + ".empty() = " + (o.empty() ? "true" : "false") + ", model says " + (m.o[i].on ? "engaged" : "empty");
    if (static_cast<bool>(o) != m.o[i].on) return std::string(kOV[i]) + " operator bool disagrees with the state";
    if (m.o[i].on) {
      live++;
      o.get().check("get");
      const nop::Optional<TrA>& co = o;
      if (&co.get() != &o.get()) return "const get() differs";
      if (!m.o[i].unspec && o.get().v != m.o[i].v) return std::string(kOV[i]) + " holds " + std::to_string(o.get().v) + ", model " + std::to_string(m.o[i].v);
    }
  }
  if (w.oi->empty() == m.o[3].on) return "oi.empty() disagrees with the model";
  if (m.o[3].on && w.oi->get() != m.o[3].v) return "oi holds " + std::to_string(w.oi->get()) + ", model " + std::to_string(m.o[3].v);
  if ((long)life().live.size() != live) return std::to_string(life().live.size()) + " tracked values alive, " + std::to_string(live) + " optionals engaged";
  if (life().ctors - life().dtors != live) return "constructions - destructions != engaged optionals";
  if (!life().violation.empty()) return "lifetime violation: " + life().violation;
  return "";
}

// ================================================================ result world
struct MR { int st = 0; int err = 0; int v = 0; bool unspec = false; };  // st: 0 empty 1 error 2 value
struct RModel { MR r[2]; int rv = 0; };
struct RWorld {
  nop::Result<E, TrA>* r1; nop::Result<E, TrA>* r2; nop::Result<E, void>* rv;
  RWorld() : r1(new nop::Result<E, TrA>()), r2(new nop::Result<E, TrA>()), rv(new nop::Result<E, void>()) {}
  ~RWorld() { delete r1; delete r2; delete rv; }
};
enum { R_SETL, R_SETR, R_ERR, R_COPY, R_MOVE, R_CLEAR, R_TAKE, R_RB_DEFAULT, R_RB_VALUE, R_RB_ERR, R_RB_COPY, R_RB_MOVE,
       RV_ERR, RV_CLEAR, RV_COPYNEW, RV_MOVENEW, RV_SELF, R_OBSERVE, R_THROW_SETL, R_THROW_COPY };
static const char* kRN[] = {"=lvalue", "=rvalue", "=error", "copy=", "move=", "clear", "take", "rebuild()", "rebuild(value)", "rebuild(error)",
                            "rebuild(copy)", "rebuild(move)", "rv=error", "rv.clear", "rv=copy-constructed", "rv=move-constructed", "rv=rv", "observe", "throw:=lvalue", "throw:copy="};
static const int kErrs[] = {0, 1, 200, 300};
static std::string ropname(const Op& o) {
  std::string s = std::string(o.x == 0 ? "r1" : o.x == 1 ? "r2" : "rv") + "." + kRN[o.code];
  if (o.code == R_COPY || o.code == R_MOVE || o.code == R_RB_COPY || o.code == R_RB_MOVE || o.code == R_THROW_COPY) return s + "(r" + std::to_string(o.y + 1) + ")";
  return s + "(" + std::to_string(o.y) + ")";
}
static std::vector<Op> ralphabet() {
  std::vector<Op> ops;
  for (int x = 0; x < 2; x++) {
    for (int v : {1, 2}) { ops.push_back({R_SETL, x, v}); ops.push_back({R_SETR, x, v}); }
    for (int e : kErrs) { ops.push_back({R_ERR, x, e}); ops.push_back({R_RB_ERR, x, e}); }
    for (int y = 0; y < 2; y++) { ops.push_back({R_COPY, x, y}); ops.push_back({R_MOVE, x, y}); }
    ops.push_back({R_RB_COPY, x, 1 - x});
    ops.push_back({R_RB_MOVE, x, 1 - x});
    ops.push_back({R_CLEAR, x, 0});
    ops.push_back({R_TAKE, x, 0});
    ops.push_back({R_RB_DEFAULT, x, 0});
    ops.push_back({R_RB_VALUE, x, 2});
    ops.push_back({R_OBSERVE, x, 0});
    ops.push_back({R_THROW_SETL, x, 2});
    ops.push_back({R_THROW_COPY, x, 1 - x});
  }
  for (int e : kErrs) ops.push_back({RV_ERR, 2, e});
  ops.push_back({RV_CLEAR, 2, 0});
  ops.push_back({RV_COPYNEW, 2, 0});
  ops.push_back({RV_MOVENEW, 2, 0});
  ops.push_back({RV_SELF, 2, 0});
  return ops;
}
static nop::Result<E, TrA>*& rref(RWorld& w, int x) { return x == 0 ? w.r1 : w.r2; }
static void rreal(RWorld& w, const Op& o) {
  switch (o.code) {
    case R_SETL: { TrA t{o.y}; *rref(w, o.x) = t; break; }
    case R_SETR: *rref(w, o.x) = TrA{o.y}; break;
    case R_ERR: *rref(w, o.x) = toE(o.y); break;
    case R_COPY: *rref(w, o.x) = *rref(w, o.y); break;
    case R_MOVE: *rref(w, o.x) = std::move(*rref(w, o.y)); break;
    case R_CLEAR: rref(w, o.x)->clear(); break;
    case R_TAKE: if (rref(w, o.x)->has_value()) { TrA t = rref(w, o.x)->take(); (void)t; } break;
    case R_RB_DEFAULT: delete rref(w, o.x); rref(w, o.x) = new nop::Result<E, TrA>(); break;
    case R_RB_VALUE: delete rref(w, o.x); rref(w, o.x) = new nop::Result<E, TrA>(TrA{o.y}); break;
    case R_RB_ERR: delete rref(w, o.x); rref(w, o.x) = new nop::Result<E, TrA>(toE(o.y)); break;
    case R_RB_COPY: delete rref(w, o.x); rref(w, o.x) = new nop::Result<E, TrA>(*rref(w, o.y)); break;
    case R_RB_MOVE: delete rref(w, o.x); rref(w, o.x) = new nop::Result<E, TrA>(std::move(*rref(w, o.y))); break;
    case RV_ERR: *w.rv = nop::Result<E, void>(toE(o.y)); break;
    case RV_CLEAR: w.rv->clear(); break;
    case RV_COPYNEW: { nop::Result<E, void> c(*w.rv); *w.rv = c; break; }
    case RV_MOVENEW: { nop::Result<E, void> c(std::move(*w.rv)); nop::Result<E, void> d; d = std::move(c); *w.rv = d; break; }
    case RV_SELF: *w.rv = *w.rv; break;
    case R_THROW_SETL: {
      TrA t{o.y};
      life().throw_countdown = 1;
      try { *rref(w, o.x) = t; } catch (const ArmedThrow&) {}
      life().throw_countdown = 0;
      break;
    }
    case R_THROW_COPY:
      life().throw_countdown = 1;
      try { *rref(w, o.x) = *rref(w, o.y); } catch (const ArmedThrow&) {}
      life().throw_countdown = 0;
      break;
    default: break;
  }
}
static void rmodel(RModel& m, const Op& o) {
  switch (o.code) {
    case R_SETL: case R_SETR: case R_RB_VALUE: m.r[o.x] = {2, 0, o.y, false}; break;
    case R_ERR: case R_RB_ERR: m.r[o.x] = o.y == 0 ? MR() : MR{1, o.y, 0, false}; break;
    case R_COPY: if (o.x != o.y) m.r[o.x] = m.r[o.y]; break;
    case R_MOVE: if (o.x != o.y) { m.r[o.x] = m.r[o.y]; m.r[o.y] = MR(); } break;  // moved-from by assignment: empty
    case R_CLEAR: case R_RB_DEFAULT: m.r[o.x] = MR(); break;
    case R_TAKE: if (m.r[o.x].st == 2) m.r[o.x].unspec = true; break;
    case R_RB_COPY: m.r[o.x] = m.r[o.y]; break;
    case R_RB_MOVE: m.r[o.x] = m.r[o.y]; m.r[o.y].st = -1; break;  // source after move construction: see rcompare
    case RV_ERR: m.rv = o.y; break;
    case RV_CLEAR: m.rv = 0; break;
    // a construction that throws (see the optional world): -2 = read the state back, lifetime accounting decides
    case R_THROW_SETL: if (m.r[o.x].st == 2) m.r[o.x] = {2, 0, o.y, false}; else m.r[o.x].st = -2; break;
    case R_THROW_COPY: {
      const MR src = m.r[o.y];
      MR& t = m.r[o.x];
      if (t.st < 0 || src.st < 0) t.st = -2;
      else if (src.st != 2) t = src;
      else if (t.st == 2) t = src;
      else t.st = -2;
      break;
    }
    default: break;  // copy/move through temporaries and self assignment keep the value
  }
}
static std::string rcanon(const RModel& m) {
  std::string s;
  for (int i = 0; i < 2; i++) {
    const MR& r = m.r[i];
    s += (i ? " " : "") + (r.st == 0 ? std::string("-") : r.st == 1 ? "E" + std::to_string(r.err) : r.unspec ? std::string("V?") : "V" + std::to_string(r.v));
  }
  return s + " rv" + std::to_string(m.rv);
}
static std::string rcompare(RWorld& w, RModel& m) {
  long live = 0;
  for (int i = 0; i < 2; i++) {
    nop::Result<E, TrA>& r = *rref(w, i);
    MR& mr = m.r[i];
    if (mr.st == -1) {
      // source of a move construction: the property leaves it open whether it is emptied or keeps a moved-from value
      if (r.has_error()) return "moved-from result reports an error";
      mr = r.has_value() ? MR{2, 0, 0, true} : MR();
    }
    if (mr.st == -2) {
      mr = MR();
      mr.st = r.has_value() ? 2 : r.has_error() ? 1 : 0;
      if (mr.st == 1) mr.err = fromE(r.error());
      if (mr.st == 2) { r.get().check("get after a throwing assignment"); mr.v = r.get().v; }
    }
    const int st = r.has_value() ? 2 : r.has_error() ? 1 : 0;
    if (r.has_value() && r.has_error()) return "has_value and has_error both true";
    if (st != mr.st) return "r" + std::to_string(i + 1) + " state " + std::to_string(st) + ", model " + std::to_string(mr.st);
    if (static_cast<bool>(r) != (st == 2)) return "operator bool disagrees with has_value";
    if (st == 1 && fromE(r.error()) != mr.err) return "error() = " + std::to_string(fromE(r.error())) + ", model " + std::to_string(mr.err);
    if (st == 1 && r.error() == E::None) return "has_error() with error None";
    if (st != 1 && r.error() != E::None) return "error() != None although no error is held";
    if (st == 2) {
      live++;
      r.get().check("get");
      if (!mr.unspec && r.get().v != mr.v) return "value " + std::to_string(r.get().v) + ", model " + std::to_string(mr.v);
    }
  }
  if (fromE(w.rv->error()) != m.rv) return "Result<E,void>::error() = " + std::to_string(fromE(w.rv->error())) + ", model " + std::to_string(m.rv);
  if (w.rv->has_error() != (m.rv != 0) || static_cast<bool>(*w.rv) != (m.rv == 0)) return "Result<E,void> has_error/bool disagree with error()";
  if ((long)life().live.size() != live) return std::to_string(life().live.size()) + " tracked values alive, " + std::to_string(live) + " results hold a value";
  if (life().ctors - life().dtors != live) return "constructions - destructions != live values";
  if (!life().violation.empty()) return "lifetime violation: " + life().violation;
  return "";
}

// ================================================================ generic BFS
template <class World, class Model, class RealF, class ModelF, class CmpF, class CanonF, class NameF>
static void bfs(const char* tag, const std::vector<Op>& ops, RealF real, ModelF model, CmpF cmp, CanonF canon, NameF name, const char* const* opkinds) {
  std::map<std::string, std::vector<int>> seen;
  std::deque<std::vector<int>> frontier;
  seen[canon(Model())] = {};
  frontier.push_back({});
  while (!frontier.empty()) {
    std::vector<int> h = frontier.front();
    frontier.pop_front();
    for (size_t oi = 0; oi < ops.size(); oi++) {
      life().reset();
      Model m;
      std::string hs, why, cid;
      bool report;
      {
        World w;
        // comparing after every step also resolves the states the model leaves open (moved-from by construction,
        // destination of an assignment whose construction threw)
        for (int pi : h) { real(w, ops[pi]); model(m, ops[pi]); cmp(w, m); hs += name(ops[pi]) + ";"; }
        cid = std::string("C13|") + tag + "|" + hs + name(ops[oi]);
        report = R.want(cid);
        real(w, ops[oi]);
        model(m, ops[oi]);
        why = cmp(w, m);
        if (report) { R.counters["transitions"]++; R.counters["evaluations"]++; }
        if (!why.empty() && report) {
          R.outcome("MISMATCH");
          R.viol(std::string("C13|") + tag + "|" + opkinds[ops[oi].code], cid, why, "{\"history\":" + jstr(hs) + ",\"op\":" + jstr(name(ops[oi])) + ",\"model\":" + jstr(canon(m)) + "}");
        }
      }
      if (why.empty() && (!life().live.empty() || life().ctors != life().dtors || !life().violation.empty())) {
        if (report)
          R.viol(std::string("C13|") + tag + "|teardown|" + opkinds[ops[oi].code], cid,
                 life().violation.empty() ? std::to_string(life().live.size()) + " values still alive after every object was destroyed" : life().violation,
                 "{\"history\":" + jstr(hs) + ",\"op\":" + jstr(name(ops[oi])) + "}");
        continue;
      }
      if (!why.empty()) continue;
      if (R.only.empty()) R.outcome(std::string(tag) + ":" + opkinds[ops[oi].code]);
      std::string k = canon(m);
      if (!seen.count(k)) {
        std::vector<int> nh = h;
        nh.push_back((int)oi);
        seen[k] = nh;
        frontier.push_back(nh);
      }
    }
  }
  R.counters["states"] += seen.size();
  R.distinct_direct += seen.size();
  // second pass without state merging (implementation-only state such as a stale error code or a value left in dead
  // storage is invisible to the model state): every operation sequence of length <= 3 from the initial state
  {
    const size_t depth = A.thorough() ? 4 : 3;
    std::vector<size_t> seq;
    uint64_t nseq = 0;
    std::function<void()> rec = [&]() {
      if (!seq.empty()) {
        life().reset();
        Model m;
        std::string why;
        {
          World w;
          for (size_t k = 0; k + 1 < seq.size(); k++) { real(w, ops[seq[k]]); model(m, ops[seq[k]]); cmp(w, m); }
          real(w, ops[seq.back()]);
          model(m, ops[seq.back()]);
          why = cmp(w, m);
        }
        if (why.empty() && (!life().live.empty() || life().ctors != life().dtors || !life().violation.empty()))
          why = life().violation.empty() ? std::to_string(life().live.size()) + " values still alive after every object was destroyed" : life().violation;
        nseq++;
        if (!why.empty()) {
          std::string hs;
          for (size_t k = 0; k < seq.size(); k++) hs += name(ops[seq[k]]) + ";";
          std::string cid = std::string("C13|") + tag + "|seq|" + hs;
          if (R.want(cid)) R.viol(std::string("C13|") + tag + "|sequence|" + opkinds[ops[seq.back()].code], cid, why, "{\"sequence\":" + jstr(hs) + "}");
          return;
        }
      }
      if (seq.size() == depth) return;
      for (size_t i = 0; i < ops.size(); i++) { seq.push_back(i); rec(); seq.pop_back(); }
    };
    if (R.only.empty() || R.only.find("|seq|") != std::string::npos) rec();
    R.counters["sequences_without_merging"] += nseq;
    R.counters["transitions"] += nseq;
    R.counters["evaluations"] += nseq;
  }
  int n = 0;
  for (auto& kv : seen) {
    if (kv.second.size() < 3) continue;
    std::string hs;
    for (int pi : kv.second) hs += name(ops[pi]) + ";";
    R.sample(std::string("{\"world\":\"") + tag + "\",\"state\":" + jstr(kv.first) + ",\"history\":" + jstr(hs) + "}");
    if (++n >= 2) break;
  }
}

// ================================================================ relational operators
template <class A_, class B_>
static void rel_case(const char* shape, const char* opn, bool got, bool want, int a, int b) {
  std::string cid = std::string("C13|rel|") + shape + "|" + opn + "|" + std::to_string(a) + "," + std::to_string(b);
  if (!R.want(cid)) return;
  R.counters["evaluations"]++;
  R.nontrivial(cid);
  if (got != want)
    R.viol(std::string("C13|relational|") + shape + "|" + opn, cid,
           std::string(shape) + ": (" + (a < 0 ? "empty" : std::to_string(a)) + ") " + opn + " (" + (b < 0 ? "empty" : std::to_string(b)) + ") = " +
               (got ? "true" : "false") + ", the total order empty < every value says " + (want ? "true" : "false"));
}
// key: empty = -1 sorts below every value
static void check_relational() {
  const int states[] = {-1, 1, 2, 3};
  for (int a : states)
    for (int b : states) {
      nop::Optional<int> oa, ob;
      nop::Optional<long> lb;
      if (a >= 0) oa = a;
      if (b >= 0) { ob = b; lb = (long)b; }
#define REL(shape, L, Rr, ka, kb)                                             \
  rel_case<int, int>(shape, "==", (L) == (Rr), (ka) == (kb), ka, kb);         \
  rel_case<int, int>(shape, "!=", (L) != (Rr), (ka) != (kb), ka, kb);         \
  rel_case<int, int>(shape, "<", (L) < (Rr), (ka) < (kb), ka, kb);            \
  rel_case<int, int>(shape, ">", (L) > (Rr), (ka) > (kb), ka, kb);            \
  rel_case<int, int>(shape, "<=", (L) <= (Rr), (ka) <= (kb), ka, kb);         \
  rel_case<int, int>(shape, ">=", (L) >= (Rr), (ka) >= (kb), ka, kb);
      // table entries are Optionals by derivation and take part in the same order
      nop::Entry<int, 5> ea, eb;
      nop::Entry<long, 9> leb;
      if (a >= 0) ea = a;
      if (b >= 0) { eb = b; leb = (long)b; }
      REL("Optional-Entry", oa, eb, a, b)
      REL("Entry-Optional", ea, ob, a, b)
      REL("Entry-Entry", ea, eb, a, b)
      REL("Entry<int>-Entry<long>", ea, leb, a, b)
      if (b >= 0) { REL("Entry-value", ea, b, a, b) }
      if (a >= 0) { REL("value-Entry", a, eb, a, b) }
      REL("Optional-Optional", oa, ob, a, b)
      REL("Optional<int>-Optional<long>", oa, lb, a, b)
      if (b >= 0) { REL("Optional-value", oa, b, a, b) }
      if (a >= 0) { REL("value-Optional", a, ob, a, b) }
#undef REL
    }
}

static void check_messages() {
  std::set<std::string> seen;
  for (int e = 0; e <= 18; e++) {
    std::string cid = "C13|msg|" + std::to_string(e);
    if (!R.want(cid)) continue;
    nop::Status<void> s{(nop::ErrorStatus)e};
    nop::Status<int> si{(nop::ErrorStatus)e};
    const char* m = e == 0 ? nop::Status<void>{}.GetErrorMessage() : s.GetErrorMessage();
    const char* mi = si.GetErrorMessage();
    R.counters["evaluations"]++;
    R.nontrivial(cid);
    if (!m || !*m || std::string(m) == "Unknown Error" || !mi || std::string(mi) != m)
      R.viol("C13|error-message|missing", cid, "ErrorStatus " + std::to_string(e) + " has no message of its own: '" + std::string(m ? m : "(null)") + "'");
    else if (!seen.insert(m).second)
      R.viol("C13|error-message|duplicate", cid, "ErrorStatus " + std::to_string(e) + " shares its message '" + std::string(m) + "' with another status");
  }
  for (int e : {19, 20, 255, -1, 1000}) {
    std::string cid = "C13|msg|" + std::to_string(e);
    if (!R.want(cid)) continue;
    nop::Status<void> s{(nop::ErrorStatus)e};
    R.counters["evaluations"]++;
    R.nontrivial(cid);
    const char* m = s.GetErrorMessage();
    if (!m || std::string(m) != "Unknown Error")
      R.viol("C13|error-message|out-of-range", cid, "out-of-range status " + std::to_string(e) + " yields '" + std::string(m ? m : "(null)") + "'");
  }
}

int main(int argc, char** argv) {
  A = Args::parse(argc, argv);
  R.only = A.only;
  // negative control: the live-count oracle must flag a leaked value
  {
    life().reset();
    OWorld w;
    OModel m;
    TrA* leak = new TrA{5};
    if (ocompare(w, m).empty()) { printf("{\"t\":\"broken\",\"msg\":\"leak control not flagged\"}\n"); return 2; }
    delete leak;
    R.add("negative_controls_flagged");
  }
  bfs<OWorld, OModel>("optional", oalphabet(), oreal, omodel, ocompare, ocanon, oopname, kON);
  bfs<RWorld, RModel>("result", ralphabet(), rreal, rmodel, rcompare, rcanon, ropname, kRN);
  check_relational();
  check_messages();
  R.finish();
  return R.violations ? 1 : 0;
}
