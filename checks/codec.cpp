// codec-lab: bounded-exhaustive exploration of libnop's Serializer/Deserializer over the type universe.
// One binary serves C01 C03 C05 C06 C10 C11 (and C02/C04 through mutate.h); selected with --prop.
// Each type runs in a forked child so that a crash is attributed to the case being executed.
#include <sys/mman.h>
#include <signal.h>
#include <sys/wait.h>
#include <unistd.h>

#include <chrono>
#include <csignal>
#include <deque>
#include <unordered_map>

#include "mutate.h"
#include "universe.h"

using namespace vf;

static Report R;
static Args A;
static double g_t0 = 0;
static char* g_progress = nullptr;  // shared page: id of the case being executed
static bool g_near = false;         // C06: restrict the capacity sweep to both ends (sanitizer build in the quick tier)

static double now() {
  return std::chrono::duration<double>(std::chrono::steady_clock::now().time_since_epoch()).count();
}
static bool out_of_time() {
  static uint64_t n = 0;
  if ((++n & 0xff) != 0) return false;
  return A.deadline > 0 && now() - g_t0 > A.deadline;
}
static void progress(const std::string& id) {
  if (g_progress) {
    size_t n = std::min(id.size(), (size_t)4000);
    memcpy(g_progress + 8, id.data(), n);
    g_progress[8 + n] = 0;
  }
}
#define CASE_ID(expr) ([&]() -> std::string { return (expr); })
// run this case? (lazy id construction; the id is only built when replaying or reporting)
template <class F>
static bool selected(F&& idf) {
  if (R.only.empty()) return true;
  return R.only == idf();
}

static const char* kname(K k) {
  static const char* n[] = {"Bool", "UInt", "SInt", "F32", "F64", "Str", "BinVec", "BinArr", "BinLB", "AryVec", "AryFix",
                            "AryLB", "Map", "Stu", "Opt", "Res", "Var", "Hnd", "Tab"};
  return n[(int)k];
}
// coarse structural signature of a type: root kind and the kinds directly below (root-cause grouping)
static std::string shape(const Sch& s) {
  std::string o = kname(s.k);
  if (!s.kids.empty()) {
    o += "<";
    std::set<std::string> ks;
    for (auto& c : s.kids) ks.insert(kname(c.k));
    bool first = true;
    for (auto& k : ks) { o += (first ? "" : ",") + k; first = false; }
    o += ">";
  }
  return o;
}
static bool contains_kind(const Sch& s, K k) {
  if (s.k == k) return true;
  for (auto& c : s.kids) if (contains_kind(c, k)) return true;
  return false;
}
// Root-cause tags that are visible from the schema (used in signatures, never to suppress anything by itself)
static std::string tags(const Sch& s) {
  std::string o;
  if (contains_kind(s, K::BinLB) || contains_kind(s, K::AryLB)) o += "+LB";
  if (contains_kind(s, K::Tab)) o += "+Tab";
  if (contains_kind(s, K::Hnd)) o += "+Hnd";
  return o;
}

struct Prepared {
  const TypeOps* t;
  std::vector<Val> dom;                    // domain values (as enumerated)
  std::vector<std::unique_ptr<Obj>> objs;  // the C++ objects
  std::vector<Val> vals;                   // Br::to(obj) in wire order
  std::vector<Val> norm;                   // normalized
  std::vector<std::vector<uint8_t>> enc;   // reference encoding
  bool narrowed = false;
};

static Prepared prepare(const TypeOps& t, bool big_strings, size_t cap_override = 0) {
  Prepared p;
  p.t = &t;
  DomainCfg cfg;
  cfg.thorough = A.thorough();
  cfg.cap = cap_override ? cap_override : (A.thorough() ? 3000 : 300);
  cfg.big_strings = big_strings;
  p.dom = domain(t.sch, cfg);
  p.narrowed = cfg.narrowed;
  for (auto& v : p.dom) {
    p.objs.emplace_back(new Obj(t, v));
    Val w = p.objs.back()->val();
    Val n = w;
    normalize(t.sch, n);
    Val dn = v;
    normalize(t.sch, dn);
    if (n != dn) {
      printf("{\"t\":\"broken\",\"msg\":%s}\n", jstr("bridge round trip differs for " + t.name + " value " + vjson(t.sch, v) + " got " + vjson(t.sch, w)).c_str());
      fflush(stdout);
      _exit(3);
    }
    p.enc.push_back(refenc_bytes(t.sch, w));
    p.vals.push_back(std::move(w));
    p.norm.push_back(std::move(n));
  }
  return p;
}

static std::string detail(const TypeOps& t, const Val& v, const std::string& extra = "") {
  std::string d = "{\"type\":" + jstr(t.name) + ",\"value\":" + vjson(t.sch, v);
  if (!extra.empty()) d += "," + extra;
  return d + "}";
}
static std::string kv(const char* k, const std::string& v) { return std::string("\"") + k + "\":" + jstr(v); }
static std::string kvn(const char* k, uint64_t v) { return std::string("\"") + k + "\":" + std::to_string(v); }

static const WriterOps* find_writer(const TypeOps& t, const std::string& name) {
  for (auto& w : t.writers) if (w.name == name) return &w;
  return nullptr;
}

// ===================================================================================== C03 wire format
static void check_c03(const TypeOps& t) {
  Prepared p = prepare(t, true);
  const bool handles = t.caps & CapHandle;
  const WriterOps* ped = find_writer(t, "PedanticBufferWriter");
  for (size_t i = 0; i < p.dom.size(); i++) {
    auto idf = CASE_ID("C03|" + t.name + "|v" + std::to_string(i));
    if (!selected(idf)) continue;
    progress(idf());
    if (out_of_time()) { R.add("incomplete"); return; }
    std::vector<uint8_t> got, got2;
    int err = 0;
    if (handles || !ped) {
      ProbeWriter w1, w2;
      err = t.probe_write(p.objs[i]->p, w1);
      t.probe_write(p.objs[i]->p, w2);
      got = w1.out;
      got2 = w2.out;
    } else {
      void* o[1] = {p.objs[i]->p};
      WOut a = ped->run(o, 1, p.enc[i].size() + 16);
      WOut b = ped->run(o, 1, p.enc[i].size() + 16);
      err = a.err;
      got = a.bytes;
      got2 = b.bytes;
    }
    R.add("evaluations");
    if (p.enc[i].size() > 1) R.nontrivial(idf());
    R.outcome(err ? std::string("write-error:") + ename(err) : "bytes-equal-reference");
    if (err) {
      R.viol("C03|write-failed|" + std::string(ename(err)) + "|" + shape(t.sch) + tags(t.sch), idf(),
             "Write of an encodable value failed with " + std::string(ename(err)), detail(t, p.vals[i]));
      continue;
    }
    if (got != p.enc[i]) {
      // locate the first differing byte and name the field it falls in
      Enc e; e.want_fields = true;
      refenc(t.sch, p.vals[i], e);
      size_t d = 0;
      while (d < got.size() && d < e.bytes.size() && got[d] == e.bytes[d]) d++;
      std::string role = "end";
      static const char* rn[] = {"Prefix", "IntValue", "BoolValue", "FloatValue", "ByteLength", "Count", "FixedCount", "MemberCount",
                                 "LBLength", "VarIndex", "HandleType", "HandleRef", "ErrCode", "TableHash", "EntryCount", "EntryId",
                                 "EntrySize", "Payload"};
      for (auto& f : e.fields) if (d >= f.off && d < f.off + f.len) role = rn[(int)f.role];
      R.viol("C03|bytes-differ|" + role + "|" + shape(t.sch) + tags(t.sch), idf(),
             "encoder output differs from docs/format.md reference at byte " + std::to_string(d) + " (field " + role + ")",
             detail(t, p.vals[i], kv("got", hex(got)) + "," + kv("want", hex(p.enc[i]))));
    }
    if (got != got2)
      R.viol("C03|not-deterministic|" + shape(t.sch), idf(), "writing the same object twice gave different bytes", detail(t, p.vals[i]));
    if (i < 1) R.sample(detail(t, p.vals[i], kv("bytes", hex(got))));
  }
}

// ===================================================================================== C01 round trip
static bool compare_back(const TypeOps& t, const Val& want_norm, const Obj& back, std::string* why) {
  Val b = back.val();
  normalize(t.sch, b);
  if (b != want_norm) {
    *why = "read-back value " + vjson(t.sch, b) + " != written value " + vjson(t.sch, want_norm);
    return false;
  }
  return true;
}

static void c01_roundtrip(const TypeOps& t, Prepared& p, const std::vector<size_t>& idx, const std::string& label) {
  // idx: indices of the values written back to back on one stream
  std::vector<void*> src;
  size_t total = 0, need = 0;
  for (size_t i : idx) { src.push_back(p.objs[i]->p); total += p.enc[i].size(); need += t.getsize(p.objs[i]->p); }
  std::vector<std::pair<std::vector<uint8_t>, std::string>> outputs;  // distinct byte strings and a writer that produced them
  for (auto& w : t.writers) {
    auto idf = CASE_ID("C01|" + t.name + "|" + label + "|W:" + w.name);
    if (!R.only.empty() && R.only.compare(0, idf().size(), idf()) != 0) continue;
    progress(idf());
    const uint64_t misuse0 = g_fd_misuse;
    WOut o = w.run(src.data(), src.size(), std::max(need, total));
    R.add("evaluations");
    if (g_fd_misuse != misuse0)
      R.viol("C01|descriptor-misuse|" + w.name, idf(), "the writer used or closed its descriptor after it had been closed (closed twice, or closed by a moved-from object)", detail(t, p.vals[idx[0]]));
    if (o.err) {
      R.outcome(std::string("write-error:") + ename(o.err));
      R.viol("C01|write-failed|" + w.name + "|" + ename(o.err) + "|" + shape(t.sch) + tags(t.sch), idf(),
             "Write failed with " + std::string(ename(o.err)) + " at value #" + std::to_string(o.failed_at),
             detail(t, p.vals[idx[o.failed_at]], kvn("capacity", std::max(need, total))));
      continue;
    }
    if (!o.intact)
      R.viol("C01|writer-overrun|" + w.name + "|" + shape(t.sch), idf(), "writer wrote outside its buffer", detail(t, p.vals[idx[0]]));
    bool seen = false;
    for (auto& e : outputs) if (e.first == o.bytes) seen = true;
    if (!seen) outputs.push_back({o.bytes, w.name});
  }
  for (auto& ob : outputs) {
    const std::vector<uint8_t>& bytes = ob.first;
    for (auto& r : t.readers) {
      auto idf = CASE_ID("C01|" + t.name + "|" + label + "|W:" + ob.second + "|R:" + r.name);
      if (!selected(idf)) continue;
      progress(idf());
      std::vector<std::unique_ptr<Obj>> dst;
      std::vector<void*> dp;
      for (size_t k = 0; k < idx.size(); k++) { dst.emplace_back(new Obj(t)); dp.push_back(dst.back()->p); }
      const uint64_t misuse0 = g_fd_misuse;
      RIn in = r.run(bytes.data(), bytes.size(), dp.data(), dp.size());
      R.add("evaluations");
      if (g_fd_misuse != misuse0)
        R.viol("C01|descriptor-misuse|" + r.name, idf(), "the reader used or closed its descriptor after it had been closed (closed twice, or closed by a moved-from object)", detail(t, p.vals[idx[0]]));
      if (bytes.size() > 1) R.nontrivial(idf());
      std::string why;
      if (in.err) {
        R.outcome(std::string("read-error:") + ename(in.err));
        R.viol("C01|read-failed|" + r.name + "|" + ename(in.err) + "|" + shape(t.sch) + tags(t.sch), idf(),
               "Read of bytes written by " + ob.second + " failed with " + ename(in.err) + " at value #" + std::to_string(in.failed_at),
               detail(t, p.vals[idx[in.failed_at]], kv("bytes", hex(bytes))));
        continue;
      }
      bool ok = true;
      size_t expect_end = 0;
      for (size_t k = 0; k < idx.size() && ok; k++) {
        if (!compare_back(t, p.norm[idx[k]], *dst[k], &why)) {
          ok = false;
          R.outcome("value-mismatch");
          R.viol("C01|value-mismatch|" + ob.second + "->" + r.name + "|" + shape(t.sch) + tags(t.sch), idf(), why,
                 detail(t, p.vals[idx[k]], kv("bytes", hex(bytes))));
        }
        expect_end += p.enc[idx[k]].size();
      }
      if (ok && in.consumed != bytes.size()) {
        R.outcome("consumed-mismatch");
        R.viol("C01|consumed-mismatch|" + r.name + "|" + shape(t.sch) + tags(t.sch), idf(),
               "reader consumed " + std::to_string(in.consumed) + " bytes, written " + std::to_string(bytes.size()),
               detail(t, p.vals[idx[0]]));
      } else if (ok) {
        R.outcome("round-trip-ok");
      }
      // the stream loop `T v; while (Read(&v)) ...`: two consecutive values read into ONE destination object; the object
      // must hold the second value afterwards (C11 explores prior states in depth, this is its shadow inside C01)
      if (ok && idx.size() == 2) {
        Obj one(t);
        void* same[2] = {one.p, one.p};
        RIn in2 = r.run(bytes.data(), bytes.size(), same, 2);
        R.add("evaluations");
        R.add("reused_destination_reads");
        std::string why2;
        if (in2.err)
          R.viol("C01|read-failed-reused-destination|" + r.name + "|" + ename(in2.err) + "|" + shape(t.sch) + tags(t.sch), idf(),
                 "reading two consecutive values into the same object failed with " + std::string(ename(in2.err)) + " at value #" + std::to_string(in2.failed_at),
                 detail(t, p.vals[idx[in2.failed_at]], kv("bytes", hex(bytes))));
        else if (!compare_back(t, p.norm[idx[1]], one, &why2))
          R.viol("C01|value-mismatch-reused-destination|" + r.name + "|" + shape(t.sch) + tags(t.sch), idf(),
                 "second of two consecutive values read into the same object: " + why2, detail(t, p.vals[idx[1]], kv("bytes", hex(bytes))));
        else if (in2.consumed != bytes.size())
          R.viol("C01|consumed-mismatch-reused-destination|" + r.name + "|" + shape(t.sch) + tags(t.sch), idf(),
                 "reader consumed " + std::to_string(in2.consumed) + " bytes, written " + std::to_string(bytes.size()), detail(t, p.vals[idx[1]]));
      }
    }
  }
  // all writers must agree with the reference bytes (ties the C01 pairing matrix to C03/C17)
  if (outputs.size() > 1 && R.only.empty()) {
    R.viol("C01|writers-disagree|" + outputs[1].second + "|" + shape(t.sch) + tags(t.sch),
           "C01|" + t.name + "|" + label + "|W:" + outputs[1].second,
           "writers produced different bytes for the same value: " + outputs[0].second + " vs " + outputs[1].second,
           detail(t, p.vals[idx[0]], kv("a", hex(outputs[0].first)) + "," + kv("b", hex(outputs[1].first))));
  }
}

static void check_c01(const TypeOps& t) {
  if (t.caps & CapHandle) return;  // handle-bearing types round-trip through the probe rigs in C15
  Prepared p = prepare(t, true);
  for (size_t i = 0; i < p.dom.size(); i++) {
    if (out_of_time()) { R.add("incomplete"); return; }
    c01_roundtrip(t, p, {i}, "v" + std::to_string(i));
    if (i == 0) R.sample(detail(t, p.vals[i], kv("bytes", hex(p.enc[i]))));
  }
  // consecutive values on one stream: every ordered pair of a small sub-domain, plus the whole domain in order
  std::vector<size_t> sub;
  {
    // choose up to 6 indices spread over the domain, preferring distinct encoding lengths
    std::set<size_t> lens;
    for (size_t i = 0; i < p.dom.size() && sub.size() < 6; i++)
      if (p.enc[i].size() < 4096 && lens.insert(p.enc[i].size()).second) sub.push_back(i);
    for (size_t i = 0; i < p.dom.size() && sub.size() < 4; i++)
      if (p.enc[i].size() < 4096 && std::find(sub.begin(), sub.end(), i) == sub.end()) sub.push_back(i);
  }
  for (size_t a : sub)
    for (size_t b : sub) {
      if (out_of_time()) { R.add("incomplete"); return; }
      c01_roundtrip(t, p, {a, b}, "seq" + std::to_string(a) + "," + std::to_string(b));
    }
  {
    std::vector<size_t> all;
    size_t total = 0;
    for (size_t i = 0; i < p.dom.size(); i++)
      if (total + p.enc[i].size() < (1u << 20)) { all.push_back(i); total += p.enc[i].size(); }
    if (all.size() > 2) c01_roundtrip(t, p, all, "all" + std::to_string(all.size()));
  }
}

// side assertion of C01's stated exclusion: a logical buffer whose size member exceeds its capacity must be rejected
static void over_capacity(const Sch& s, Val& v, bool* done) {
  if (*done) return;
  if (s.unbounded) return;  // NOP_UNBOUNDED_BUFFER: no capacity to exceed, the caller vouches for the storage
  if (s.k == K::BinLB) {
    uint64_t maxcount = s.sw >= 8 ? ~0ULL : ((1ULL << (8 * s.sw - (s.ssigned ? 1 : 0))) - 1);
    if (s.n + 1 <= maxcount) { v.raw = pattern_bytes((s.n + 1) * s.w, s.w, s.boolelem); *done = true; }
    return;
  }
  if (s.k == K::AryLB) {
    uint64_t maxcount = s.sw >= 8 ? ~0ULL : ((1ULL << (8 * s.sw - (s.ssigned ? 1 : 0))) - 1);
    if (s.n + 1 <= maxcount && !v.kids.empty()) { while (v.kids.size() < s.n + 1) v.kids.push_back(v.kids[0]); *done = true; }
    return;
  }
  if (s.k == K::Stu)
    for (size_t i = 0; i < s.kids.size() && i < v.kids.size(); i++) over_capacity(s.kids[i], v.kids[i], done);
}
static void check_c01_exclusion(const TypeOps& t) {
  if (t.caps & CapHandle) return;
  if (!(t.sch.k == K::Stu || t.sch.k == K::BinLB || t.sch.k == K::AryLB)) return;
  DomainCfg cfg;
  cfg.big_strings = false;
  std::vector<Val> dom = domain(t.sch, cfg);
  for (size_t i = 0; i < dom.size(); i++) {
    Val v = dom[i];
    bool done = false;
    over_capacity(t.sch, v, &done);
    if (!done) continue;
    auto idf = CASE_ID("C01|" + t.name + "|overcap" + std::to_string(i));
    if (!selected(idf)) continue;
    progress(idf());
    Obj o(t, v);
    for (auto& w : t.writers) {
      void* op[1] = {o.p};
      WOut out = w.run(op, 1, 1 << 20);
      R.add("evaluations");
      R.nontrivial(idf() + w.name);
      R.outcome(std::string("overcap:") + ename(out.err));
      if (out.err != (int)nop::ErrorStatus::InvalidContainerLength)
        R.viol("C01|overcap-not-rejected|" + w.name + "|" + shape(t.sch), idf(),
               "logical buffer with size member above capacity: Write returned " + std::string(ename(out.err)) +
                   ", expected InvalidContainerLength",
               "{\"type\":" + jstr(t.name) + "}");
    }
    break;  // one over-capacity object per type (first value that has a non-empty element to replicate)
  }
}

// ===================================================================================== C05 truncation
static void check_c05(const TypeOps& t) {
  if (t.caps & CapHandle) return;
  Prepared p = prepare(t, A.thorough());
  for (size_t i = 0; i < p.dom.size(); i++) {
    const std::vector<uint8_t>& bytes = p.enc[i];
    for (auto& r : t.readers) {
      const bool file_rig = r.name.find("ifstream") != std::string::npos;
      for (size_t k = 0; k < bytes.size(); k++) {
        // file-backed readers (thorough tier) cost a file per case: long encodings get both ends only
        if (file_rig && bytes.size() > 64 && k >= 8 && k + 24 < bytes.size()) continue;
        auto idf = CASE_ID("C05|" + t.name + "|v" + std::to_string(i) + "|R:" + r.name + "|cut" + std::to_string(k));
        if (!selected(idf)) continue;
        if (out_of_time()) { R.add("incomplete"); return; }
        if ((k & 0x3f) == 0 || !R.only.empty()) progress(idf());
        Obj dst(t);
        void* dp[1] = {dst.p};
        RIn in = r.run(bytes.data(), k, dp, 1);
        R.counters["evaluations"]++;
        if (bytes.size() > 1) R.distinct_direct++;  // (type,value,reader,cut) tuples are distinct by construction
        if (!in.err) {
          R.outcome("ACCEPTED-TRUNCATED");
          R.viol("C05|accepted-truncation|" + r.name + "|" + shape(t.sch) + tags(t.sch), idf(),
                 "strict prefix of length " + std::to_string(k) + " of a " + std::to_string(bytes.size()) +
                     "-byte encoding was reported as successfully decoded",
                 detail(t, p.vals[i], kv("bytes", hex(bytes)) + "," + kvn("cut", k) + "," + kv("reader", r.name)));
        } else {
          R.outcome(std::string("rejected:") + ename(in.err));
        }
      }
    }
    if (i == 0 && !bytes.empty()) R.sample(detail(t, p.vals[i], kv("bytes", hex(bytes)) + ",\"cuts\":\"0.." + std::to_string(bytes.size() - 1) + "\""));
  }
}

// ===================================================================================== C06 GetSize / capacity
static void check_c06(const TypeOps& t) {
  Prepared p = prepare(t, A.thorough());
  const bool handles = t.caps & CapHandle;
  for (size_t i = 0; i < p.dom.size(); i++) {
    const size_t len = p.enc[i].size();
    const size_t gs = t.getsize(p.objs[i]->p);
    auto idg = CASE_ID("C06|" + t.name + "|v" + std::to_string(i) + "|getsize");
    if (selected(idg)) {
      R.add("evaluations");
      if (len > 1) R.nontrivial(idg());
      if (gs < len)
        R.viol("C06|getsize-underestimates|" + shape(t.sch) + tags(t.sch), idg(),
               "GetSize = " + std::to_string(gs) + " < " + std::to_string(len) + " bytes emitted", detail(t, p.vals[i]));
      else if (!handles && gs != len)
        R.viol("C06|getsize-not-exact|" + shape(t.sch) + tags(t.sch), idg(),
               "GetSize = " + std::to_string(gs) + " != " + std::to_string(len) + " bytes emitted (type without handles)",
               detail(t, p.vals[i]));
      // entry sizes: the reference decoder walks declared sizes; it must end exactly at len
      if (t.sch.has_table() && !handles) {
        DecResult d = refdec_bytes(t.sch, p.enc[i].data(), len);
        if (!d.ok || d.consumed != len) {
          printf("{\"t\":\"broken\",\"msg\":\"reference decoder rejects reference encoding\"}\n");
          _exit(3);
        }
      }
    }
    if (handles) continue;  // capacity sweep uses the library buffer writers (no handle channel)
    for (auto& w : t.writers) {
      if (w.unbounded) continue;
      // capacities 0..gs+1; for long encodings all capacities near both ends and a stride in between
      for (size_t c = 0; c <= gs + 1; c++) {
        if (gs > 700 && c > 300 && c + 300 < gs && (c % 61) != 0) continue;
        if (g_near && c > 8 && c + 9 < gs) continue;  // sanitizer build: capacities near both ends only
        auto idf = CASE_ID("C06|" + t.name + "|v" + std::to_string(i) + "|W:" + w.name + "|cap" + std::to_string(c));
        if (!selected(idf)) continue;
        if (out_of_time()) { R.add("incomplete"); return; }
        if ((c & 0x3f) == 0 || !R.only.empty()) progress(idf());
        void* op[1] = {p.objs[i]->p};
        uint64_t before = g_sanitizer_reports;
        WOut o = w.run(op, 1, c);
        R.counters["evaluations"]++;
        if (len > 1) R.distinct_direct++;
        if (g_sanitizer_reports != before)
          R.viol("C06|sanitizer|" + w.name + "|" + shape(t.sch) + tags(t.sch), idf(), "sanitizer report while writing into a " + std::to_string(c) + "-byte buffer", detail(t, p.vals[i]));
        if (!o.intact)
          R.viol("C06|wrote-past-end|" + w.name + "|" + shape(t.sch) + tags(t.sch), idf(),
                 "bytes beyond the end of a " + std::to_string(c) + "-byte buffer were modified", detail(t, p.vals[i], kvn("capacity", c)));
        if (c >= gs) {
          R.outcome("fits");
          if (o.err)
            R.viol("C06|failed-despite-capacity|" + w.name + "|" + ename(o.err) + "|" + shape(t.sch) + tags(t.sch), idf(),
                   "capacity " + std::to_string(c) + " >= GetSize " + std::to_string(gs) + " but Write failed with " + ename(o.err),
                   detail(t, p.vals[i]));
          else if (o.reported != len)
            R.viol("C06|size-mismatch|" + w.name + "|" + shape(t.sch) + tags(t.sch), idf(),
                   "writer reports " + std::to_string(o.reported) + " bytes, encoding has " + std::to_string(len), detail(t, p.vals[i]));
          else if (o.bytes != p.enc[i])
            R.viol("C06|bytes-differ|" + w.name + "|" + shape(t.sch) + tags(t.sch), idf(), "bytes written differ from the reference encoding",
                   detail(t, p.vals[i], kv("got", hex(o.bytes)) + "," + kv("want", hex(p.enc[i]))));
        } else {
          R.outcome(o.err ? std::string("refused:") + ename(o.err) : "ACCEPTED-TOO-SMALL");
          if (o.err != (int)nop::ErrorStatus::WriteLimitReached)
            R.viol("C06|too-small-not-refused|" + w.name + "|" + ename(o.err) + "|" + shape(t.sch) + tags(t.sch), idf(),
                   "capacity " + std::to_string(c) + " < GetSize " + std::to_string(gs) + " but Write returned " + ename(o.err),
                   detail(t, p.vals[i]));
          else if (o.reported != 0)
            R.viol("C06|partial-write-after-failed-prepare|" + w.name + "|" + shape(t.sch) + tags(t.sch), idf(),
                   "Write refused for lack of space but " + std::to_string(o.reported) + " bytes were written", detail(t, p.vals[i]));
        }
      }
    }
    // "remaining capacity": the same sweep on a writer that already holds one copy of the value; the second Write sees
    // c bytes of remaining space in a buffer of len + c bytes (capacities near both ends)
    if (gs == len)
      for (auto& w : t.writers) {
        if (w.unbounded) continue;
        for (size_t c = 0; c <= gs + 1; c++) {
          if (c > 4 && c + 4 < gs) continue;
          auto idf = CASE_ID("C06|" + t.name + "|v" + std::to_string(i) + "|W:" + w.name + "|second|rem" + std::to_string(c));
          if (!selected(idf)) continue;
          if (out_of_time()) { R.add("incomplete"); return; }
          progress(idf());
          void* op[2] = {p.objs[i]->p, p.objs[i]->p};
          WOut o = w.run(op, 2, len + c);
          R.counters["evaluations"]++;
          R.add("remaining_capacity_cases");
          if (len > 1) R.distinct_direct++;
          if (!o.intact)
            R.viol("C06|wrote-past-end|" + w.name + "|" + shape(t.sch) + tags(t.sch), idf(),
                   "second Write with " + std::to_string(c) + " bytes remaining modified bytes beyond the end of the buffer", detail(t, p.vals[i], kvn("remaining", c)));
          if (c >= gs) {
            if (o.err)
              R.viol("C06|failed-despite-capacity|" + w.name + "|" + ename(o.err) + "|" + shape(t.sch) + tags(t.sch), idf(),
                     std::to_string(c) + " bytes remaining >= GetSize " + std::to_string(gs) + " but Write #" + std::to_string(o.failed_at) + " failed with " + ename(o.err), detail(t, p.vals[i]));
          } else if (o.err != (int)nop::ErrorStatus::WriteLimitReached || o.failed_at != 1) {
            R.viol("C06|too-small-not-refused|" + w.name + "|" + ename(o.err) + "|" + shape(t.sch) + tags(t.sch), idf(),
                   std::to_string(c) + " bytes remaining < GetSize " + std::to_string(gs) + " but the second Write returned " + ename(o.err) +
                       (o.err ? " (failing write #" + std::to_string(o.failed_at) + ")" : ""), detail(t, p.vals[i]));
          } else if (o.reported != len) {
            R.viol("C06|partial-write-after-failed-prepare|" + w.name + "|" + shape(t.sch) + tags(t.sch), idf(),
                   "second Write refused for lack of space but the writer holds " + std::to_string(o.reported) + " bytes instead of " + std::to_string(len), detail(t, p.vals[i]));
          }
        }
      }
    if (i == 0) R.sample(detail(t, p.vals[i], kvn("getsize", gs) + "," + kvn("len", len)));
  }
}

// ===================================================================================== C10 fault propagation
static std::string logstr(const std::vector<Call>& log, size_t upto = 12) {
  std::string o;
  for (size_t i = 0; i < log.size() && i < upto; i++) { o += log[i].op; }
  if (log.size() > upto) o += "..";
  return o;
}
static void check_c10(const TypeOps& t) {
  DomainCfg cfg;
  cfg.big_strings = false;
  cfg.cap = A.thorough() ? 200 : 40;
  std::vector<Val> dom = domain(t.sch, cfg, A.thorough() ? 0 : 1);
  if (dom.size() > cfg.cap) dom.resize(cfg.cap);
  for (size_t i = 0; i < dom.size(); i++) {
    Obj src(t, dom[i]);
    ProbeWriter clean;
    int e0 = t.probe_write(src.p, clean);
    if (e0) continue;  // not encodable through the probe (reported by C01/C03)
    const size_t ncalls = clean.log.size();
    const int errs_q[] = {1, 4, 12, 13, 14, 16, 18};
    std::vector<int> errs;
    if (A.thorough()) for (int e = 1; e <= 18; e++) errs.push_back(e);
    else errs.assign(errs_q, errs_q + 7);
    // ---- write side
    for (size_t k = 0; k < ncalls; k++)
      for (int e : errs) {
        auto idf = CASE_ID("C10|" + t.name + "|v" + std::to_string(i) + "|W|call" + std::to_string(k) + "|err" + std::to_string(e));
        if (!selected(idf)) continue;
        if (out_of_time()) { R.add("incomplete"); return; }
        if (!R.only.empty()) progress(idf());
        ProbeWriter w;
        w.fail_at = (long)k;
        w.fail_with = e;
        int got = t.probe_write(src.p, w);
        R.counters["evaluations"]++;
        R.distinct_direct++;
        const char op = clean.log[k].op;
        std::string opn(1, op);
        if (got != e) {
          R.outcome(got ? "WRONG-ERROR" : "SUCCESS-AFTER-FAILED-IO");
          R.viol("C10|write|" + std::string(got ? "wrong-error" : "success-after-failure") + "|op" + opn + "|" + shape(t.sch) + tags(t.sch), idf(),
                 "writer call #" + std::to_string(k) + " (" + opn + ") failed with " + ename(e) + " but Write returned " + ename(got),
                 detail(t, dom[i], kv("calls", logstr(clean.log, 40))));
        } else if (w.log.size() != k + 1) {
          R.outcome("CALLS-AFTER-FAILURE");
          R.viol("C10|write|calls-after-failure|op" + opn + "|" + shape(t.sch) + tags(t.sch), idf(),
                 std::to_string(w.log.size() - k - 1) + " further writer calls after call #" + std::to_string(k) + " failed",
                 detail(t, dom[i], kv("calls", logstr(w.log, 40))));
        } else if (k == 0 && !w.out.empty()) {
          R.viol("C10|write|bytes-after-failed-prepare|" + shape(t.sch), idf(), "Prepare failed but bytes were written", detail(t, dom[i]));
        } else {
          R.outcome("propagated");
        }
      }
    // ---- read side
    std::vector<uint8_t> bytes = clean.out;
    Obj d0(t);
    ProbeReader rclean(bytes.data(), bytes.size());
    if (t.probe_read(d0.p, rclean)) continue;
    const size_t rcalls = rclean.log.size();
    for (size_t k = 0; k < rcalls; k++)
      for (int e : errs) {
        auto idf = CASE_ID("C10|" + t.name + "|v" + std::to_string(i) + "|R|call" + std::to_string(k) + "|err" + std::to_string(e));
        if (!selected(idf)) continue;
        if (out_of_time()) { R.add("incomplete"); return; }
        if (!R.only.empty()) progress(idf());
        Obj dst(t);
        ProbeReader r(bytes.data(), bytes.size());
        r.fail_at = (long)k;
        r.fail_with = e;
        r.scribble_on_failure = true;  // the destination is not inspected after the failed read in this check
        int got = t.probe_read(dst.p, r);
        R.counters["evaluations"]++;
        R.distinct_direct++;
        std::string opn(1, rclean.log[k].op);
        if (got != e) {
          R.outcome(got ? "WRONG-ERROR" : "SUCCESS-AFTER-FAILED-IO");
          R.viol("C10|read|" + std::string(got ? "wrong-error" : "success-after-failure") + "|op" + opn + "|" + shape(t.sch) + tags(t.sch), idf(),
                 "reader call #" + std::to_string(k) + " (" + opn + ") failed with " + ename(e) + " but Read returned " + ename(got),
                 detail(t, dom[i], kv("calls", logstr(rclean.log, 40))));
        } else if (r.log.size() != k + 1) {
          R.outcome("CALLS-AFTER-FAILURE");
          R.viol("C10|read|calls-after-failure|op" + opn + "|" + shape(t.sch) + tags(t.sch), idf(),
                 std::to_string(r.log.size() - k - 1) + " further reader calls after call #" + std::to_string(k) + " failed",
                 detail(t, dom[i], kv("calls", logstr(r.log, 40))));
        } else {
          R.outcome("propagated");
        }
      }
    if (i == 0) R.sample(detail(t, dom[i], kv("write_calls", logstr(clean.log, 40)) + "," + kv("read_calls", logstr(rclean.log, 40))));
  }
}

// ===================================================================================== C11 prior-state independence
// Explicit-state search: state = canonical Val of a destination object; transitions = assign(v), read(enc(v)),
// failed read (every primitive-call index, every truncation). Every state reached is expanded with every operation.
static void check_c11(const TypeOps& t) {
  if (t.caps & CapHandle) return;
  DomainCfg cfg;
  cfg.big_strings = false;
  cfg.cap = 64;
  std::vector<Val> all = domain(t.sch, cfg, 1);
  // choose up to V values that differ in encoded size / emptiness (first, last, smallest, largest, middle)
  const size_t V = A.thorough() ? 6 : 4;
  std::vector<Val> vals;
  {
    std::vector<std::pair<size_t, size_t>> bylen;
    for (size_t i = 0; i < all.size(); i++) bylen.push_back({refenc_bytes(t.sch, all[i]).size(), i});
    std::sort(bylen.begin(), bylen.end());
    std::set<size_t> pick;
    if (!bylen.empty()) {
      pick.insert(bylen.front().second);
      pick.insert(bylen.back().second);
      for (size_t q = 1; q + 1 < V && q < bylen.size(); q++) pick.insert(bylen[q * (bylen.size() - 1) / (V - 1)].second);
    }
    for (size_t i = 0; i < all.size() && pick.size() < std::min(V, all.size()); i++) pick.insert(i);
    for (size_t i : pick) vals.push_back(all[i]);
  }
  std::vector<std::vector<uint8_t>> encs;
  std::vector<Val> norms;
  for (auto& v : vals) {
    Obj o(t, v);
    Val w = o.val();
    encs.push_back(refenc_bytes(t.sch, w));
    normalize(t.sch, w);
    norms.push_back(w);
  }
  struct Op { char kind; size_t v; size_t k; };  // 'A' assign, 'R' read, 'F' fault at call k, 'T' truncate at k
  std::vector<Op> ops;
  for (size_t v = 0; v < vals.size(); v++) ops.push_back({'A', v, 0});
  for (size_t v = 0; v < vals.size(); v++) ops.push_back({'R', v, 0});
  // the same read through every library reader (the fd reader delivers at most 3 bytes per system call, so a block payload
  // arrives in pieces): what ends up in a used object must not depend on the reader either
  for (size_t v = 0; v < vals.size(); v++)
    for (size_t j = 0; j < t.readers.size(); j++) ops.push_back({'L', v, j});
  for (size_t v = 0; v < vals.size(); v++) {
    Obj d(t);
    ProbeReader pr(encs[v].data(), encs[v].size());
    t.probe_read(d.p, pr);
    for (size_t k = 0; k < pr.log.size(); k++) ops.push_back({'F', v, k});
    for (size_t k = 0; k < encs[v].size(); k++) ops.push_back({'T', v, k});
  }
  auto opname = [&](const Op& o) { return std::string(1, o.kind) + std::to_string(o.v) + (o.kind == 'F' || o.kind == 'T' ? "@" + std::to_string(o.k) : o.kind == 'L' ? "/" + t.readers[o.k].name : ""); };
  // apply one op to a live object; returns false on a property violation (already reported)
  auto apply = [&](Obj& obj, const Op& o, const std::string& hist, bool report) -> bool {
    if (o.kind == 'A') { t.from_val(vals[o.v], obj.p); return true; }
    if (o.kind == 'R') {
      ProbeReader pr(encs[o.v].data(), encs[o.v].size());
      int e = t.probe_read(obj.p, pr);
      Val got = obj.val();
      normalize(t.sch, got);
      if (e || got != norms[o.v] || pr.pos != encs[o.v].size()) {
        if (report)
          R.viol("C11|stale-state|" + shape(t.sch) + tags(t.sch), "C11|" + t.name + "|" + hist + opname(o),
                 e ? std::string("read into a used object failed with ") + ename(e)
                   : "reading into an object with prior contents gives " + vjson(t.sch, got) + ", a fresh object gives " + vjson(t.sch, norms[o.v]),
                 "{\"type\":" + jstr(t.name) + ",\"history\":" + jstr(hist + opname(o)) + "}");
        return false;
      }
      return true;
    }
    if (o.kind == 'L') {
      void* dp[1] = {obj.p};
      RIn in = t.readers[o.k].run(encs[o.v].data(), encs[o.v].size(), dp, 1);
      Val got = obj.val();
      normalize(t.sch, got);
      if (in.err || got != norms[o.v] || in.consumed != encs[o.v].size()) {
        if (report)
          R.viol("C11|stale-state|" + t.readers[o.k].name + "|" + shape(t.sch) + tags(t.sch), "C11|" + t.name + "|" + hist + opname(o),
                 in.err ? std::string("read into a used object failed with ") + ename(in.err)
                        : "reading through " + t.readers[o.k].name + " into an object with prior contents gives " + vjson(t.sch, got) + ", a fresh object gives " + vjson(t.sch, norms[o.v]),
                 "{\"type\":" + jstr(t.name) + ",\"history\":" + jstr(hist + opname(o)) + "}");
        return false;
      }
      return true;
    }
    if (o.kind == 'F') {
      ProbeReader pr(encs[o.v].data(), encs[o.v].size());
      pr.fail_at = (long)o.k;
      pr.fail_with = (int)nop::ErrorStatus::IOError;
      t.probe_read(obj.p, pr);
      return true;
    }
    ProbeReader pr(encs[o.v].data(), o.k);
    t.probe_read(obj.p, pr);
    return true;
  };
  auto canon = [&](Obj& obj) {
    Val v = obj.val();
    normalize(t.sch, v);
    return vjson(t.sch, v) + "#" + std::to_string(fnv(std::string(reinterpret_cast<const char*>(refenc_bytes(t.sch, v).data()), refenc_bytes(t.sch, v).size())));
  };
  // BFS over histories; state identity = canonical observable value
  const size_t max_depth = A.thorough() ? 4 : 3;
  const size_t max_states = A.thorough() ? 4000 : 600;
  std::unordered_map<std::string, std::vector<Op>> seen;  // canon -> shortest history
  std::deque<std::vector<Op>> frontier;
  {
    Obj fresh(t);
    seen[canon(fresh)] = {};
    frontier.push_back({});
  }
  size_t maxd = 0;
  bool capped = false;
  while (!frontier.empty()) {
    std::vector<Op> h = frontier.front();
    frontier.pop_front();
    std::string hs;
    for (auto& o : h) hs += opname(o) + ";";
    for (auto& o : ops) {
      auto idf = CASE_ID("C11|" + t.name + "|" + hs + opname(o));
      // replay mode still walks the whole search (the frontier must be rebuilt) but reports only the requested case
      const bool report = selected(idf);
      if (out_of_time()) { R.add("incomplete"); return; }
      if (R.only.empty()) progress(idf());
      Obj obj(t);
      for (auto& p : h) apply(obj, p, "", false);
      bool ok = apply(obj, o, hs, report);
      R.counters["transitions"]++;
      R.counters["evaluations"]++;
      if (o.kind == 'R') R.counters["reads_into_used_state"] += h.empty() ? 0 : 1;
      if (!ok) continue;
      std::string c = canon(obj);
      // replay determinism: the same history on a second fresh object must give the same canonical state; and once that
      // object is gone every block it or the reads obtained from operator new has been returned ("nothing is leaked")
      {
        const long blocks_before = live_blocks();
        bool differs;
        {
          Obj again(t);
          for (auto& p : h) apply(again, p, "", false);
          apply(again, o, hs, false);
          differs = canon(again) != c;
        }
        const long blocks_after = live_blocks();
        if (differs && report)
          R.viol("C11|nondeterministic-state|" + shape(t.sch), idf(), "same history produced two different states (uninitialised data?)",
                 "{\"type\":" + jstr(t.name) + ",\"history\":" + jstr(hs + opname(o)) + "}");
        if (blocks_after != blocks_before && report)
          R.viol("C11|leak|" + shape(t.sch) + tags(t.sch), idf(),
                 std::to_string(blocks_after - blocks_before) + " heap block(s) still allocated after the destination object was destroyed",
                 "{\"type\":" + jstr(t.name) + ",\"history\":" + jstr(hs + opname(o)) + "}");
      }
      if (!seen.count(c)) {
        if (seen.size() >= max_states) { capped = true; continue; }
        std::vector<Op> nh = h;
        nh.push_back(o);
        seen[c] = nh;
        maxd = std::max(maxd, nh.size());
        if (nh.size() < max_depth) frontier.push_back(nh);
      }
    }
  }
  // second pass without state merging: two histories that reach the same observable value may differ in state the
  // value tree does not show (spare capacity, a stale error code, a half-read element); every pair and triple
  // (op1[, op2], read) from a fresh object is executed as well
  {
    std::vector<Op> reads;
    for (auto& o : ops) if (o.kind == 'R') reads.push_back(o);
    uint64_t n = 0;
    for (auto& o1 : ops) {
      for (size_t second = 0; second <= (A.thorough() ? ops.size() : 0); second++) {
        for (auto& rd : reads) {
          std::string hs = opname(o1) + ";" + (second ? opname(ops[second - 1]) + ";" : "");
          auto idf = CASE_ID("C11|" + t.name + "|seq|" + hs + opname(rd));
          const bool report = selected(idf);
          if (out_of_time()) { R.add("incomplete"); return; }
          const long blocks_before = live_blocks();
          {
            Obj obj(t);
            apply(obj, o1, "", false);
            if (second) apply(obj, ops[second - 1], "", false);
            apply(obj, rd, "seq|" + hs, report);
          }
          if (live_blocks() != blocks_before && report)
            R.viol("C11|leak|" + shape(t.sch) + tags(t.sch), idf(), std::to_string(live_blocks() - blocks_before) + " heap block(s) still allocated after the destination object was destroyed",
                   "{\"type\":" + jstr(t.name) + ",\"history\":" + jstr("seq|" + hs + opname(rd)) + "}");
          n++;
        }
        if (o1.kind == 'R' && !A.thorough()) break;
      }
    }
    R.counters["transitions"] += n;
    R.counters["evaluations"] += n;
    R.counters["sequences_without_merging"] += n;
  }
  R.counters["states"] += seen.size();
  R.distinct_direct += seen.size();
  R.counters["max_depth"] = std::max<uint64_t>(R.counters["max_depth"], maxd);
  if (capped) { R.add("state_cap_hit"); R.add("incomplete"); }
  R.outcome("states:" + std::to_string(seen.size() > 20 ? 20 : seen.size()) + (seen.size() > 20 ? "+" : ""));
  if (!seen.empty()) {
    auto it = seen.begin();
    std::string hs;
    for (auto& kvp : seen) if (kvp.second.size() >= 2) { it = seen.find(kvp.first); break; }
    for (auto& o : it->second) hs += opname(o) + ";";
    R.sample("{\"type\":" + jstr(t.name) + ",\"history\":" + jstr(hs) + ",\"state\":" + jstr(it->first.substr(0, 200)) + "}");
  }
}

// ===================================================================================== C02 / C04 (mutations)
#include "codec_hostile.inc"

// ===================================================================================== driver
static void run_type(const TypeOps& t) {
  const std::string& p = A.prop;
  if (p == "C01") { check_c01(t); check_c01_exclusion(t); }
  else if (p == "C03") check_c03(t);
  else if (p == "C05") check_c05(t);
  else if (p == "C06") check_c06(t);
  else if (p == "C10") check_c10(t);
  else if (p == "C11") check_c11(t);
  else if (p == "C02") check_c02(t);
  else if (p == "C04") check_c04(t);
}

#include "codec_controls.inc"

static int sub_i_early(const Args& a) {
  int i = 0, n = 1;
  for (size_t k = 0; k + 1 < a.rest.size(); k++)
    if (a.rest[k] == "--sub") sscanf(a.rest[k + 1].c_str(), "%d/%d", &i, &n);
  return i;
}

int main(int argc, char** argv) {
  A = Args::parse(argc, argv);
  R.only = A.only;
  g_t0 = now();
  for (auto& r : A.rest) if (r == "--near") g_near = true;
  std::vector<TypeOps> types;
  register_universe(types);
  if (A.prop == "list") {
    for (auto& t : types) printf("%s\n", t.name.c_str());
    return 0;
  }
  g_progress = static_cast<char*>(mmap(nullptr, 8192, PROT_READ | PROT_WRITE, MAP_SHARED | MAP_ANONYMOUS, -1, 0));
  // negative controls first: the oracle of this property must flag a planted harness-side defect
  if (A.only.empty() && SHARD == 0 && sub_i_early(A) == 0) {
    std::string why;
    if (!run_controls(A.prop, &why)) {
      printf("{\"t\":\"broken\",\"msg\":%s}\n", jstr("negative control not flagged: " + why).c_str());
      return 2;
    }
    printf("{\"t\":\"stat\",\"counters\":{\"negative_controls_flagged\":%d},\"distinct\":0,\"violations\":0,\"sigcounts\":{},\"outcomes\":[],\"notes\":[]}\n",
           (int)R.counters["negative_controls_flagged"]);
  }
  std::string only_type;
  if (!A.only.empty()) {
    size_t a = A.only.find('|');
    size_t b = A.only.find('|', a + 1);
    only_type = A.only.substr(a + 1, b - a - 1);
  }
  int rc = 0;
  int sub_i = 0, sub_n = 1;  // --sub i/n: this process handles every n-th type of the shard (load balancing)
  for (size_t k = 0; k + 1 < A.rest.size(); k++)
    if (A.rest[k] == "--sub") sscanf(A.rest[k + 1].c_str(), "%d/%d", &sub_i, &sub_n);
  int type_index = -1;
  for (auto& t : types) {
    type_index++;
    if (only_type.empty() && (type_index % sub_n) != sub_i) continue;
    if (!only_type.empty() && t.name != only_type) continue;
    if (A.deadline > 0 && now() - g_t0 > A.deadline) {
      printf("{\"t\":\"stat\",\"counters\":{\"incomplete\":1,\"types_skipped_deadline\":1},\"distinct\":0,\"violations\":0,\"sigcounts\":{},\"outcomes\":[],\"notes\":[\"deadline reached before type %s\"]}\n", jesc(t.name).c_str());
      continue;
    }
    // the "array of length 1 at the end of the structure" idiom of unbounded logical buffers indexes past the declared
    // bound by design (UBSan -fsanitize=bounds reports it): those types run in the non-sanitizer build only
    if (under_asan() && t.sch.has_unbounded()) continue;
    fflush(stdout);
    g_progress[8] = 0;
    pid_t pid = fork();
    if (pid == 0) {
      R = Report();
      R.only = A.only;
      R.max_samples = 1;
      R.add("types");
      run_type(t);
      R.finish();
      fflush(stdout);
      _exit(R.violations ? 1 : 0);
    }
    int st = 0;
    // wait, watching the child's resident set: a tree under test that allocates without bound or corrupts its heap must
    // take down this one process (reported as a crash of the case it was executing), not the machine
    {
      const long page = sysconf(_SC_PAGESIZE);
      const long limit_pages = (long)((6ull << 30) / (unsigned long long)page);
      char statm[64];
      snprintf(statm, sizeof statm, "/proc/%d/statm", (int)pid);
      for (;;) {
        pid_t w = waitpid(pid, &st, WNOHANG);
        if (w == pid) break;
        if (w < 0) { st = 0; break; }
        if (FILE* f = fopen(statm, "r")) {
          long vm = 0, rss = 0;
          if (fscanf(f, "%ld %ld", &vm, &rss) == 2 && rss > limit_pages) kill(pid, SIGKILL);
          fclose(f);
        }
        usleep(20000);
      }
    }
    if (WIFSIGNALED(st) || (WIFEXITED(st) && WEXITSTATUS(st) > 1)) {
      std::string cs = g_progress + 8;
      if (WIFEXITED(st) && WEXITSTATUS(st) == 3) { rc = 2; continue; }
      std::string how = WIFSIGNALED(st) ? "signal " + std::to_string(WTERMSIG(st)) : "exit " + std::to_string(WEXITSTATUS(st));
      printf("{\"t\":\"viol\",\"sig\":%s,\"case\":%s,\"msg\":%s,\"detail\":{\"type\":%s}}\n",
             jstr(A.prop + "|crash|" + shape(t.sch) + tags(t.sch)).c_str(), jstr(cs.empty() ? A.prop + "|" + t.name + "|?" : cs).c_str(),
             jstr("process died (" + how + ") while executing this case").c_str(), jstr(t.name).c_str());
      printf("{\"t\":\"stat\",\"counters\":{\"crashes\":1,\"incomplete\":1},\"distinct\":0,\"violations\":1,\"sigcounts\":{},\"outcomes\":[\"CRASH\"],\"notes\":[]}\n");
      rc = 1;
    } else if (WIFEXITED(st) && WEXITSTATUS(st) == 1) {
      rc = rc == 2 ? 2 : 1;
    }
  }
  fflush(stdout);
  return rc;
}
