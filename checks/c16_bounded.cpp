// C16: BoundedReader / BoundedWriter confine all traffic to their byte limit.
// Explicit-state search: state = (used budget, inner cursor, inner calls made up to the scripted failure);
// every state is expanded with every primitive call of a small alphabet (sizes 0, 1, 2, rem-1, rem, rem+1, 2^63,
// 2^64-rem, 2^64-1; element widths 1/2/4/8); the real Bounded* over a logging inner reader/writer is compared with
// a two-counter reference model driving its own copy of the inner reader/writer.
#include <deque>
#include <set>

#include "rigs.h"
#include "report.h"

using namespace vf;
static Report R;
static Args A;

static const uint64_t U64MAX = ~0ULL;

struct Op {
  char kind;     // E Ensure/Prepare, B byte, R range, S skip, P padding
  int sel;       // size selector (resolved against the remaining budget) / range: width
  int cnt;       // range: count selector
  uint8_t val;   // skip/padding value
};
// size selectors
static uint64_t resolve(int sel, uint64_t rem) {
  switch (sel) {
    case 0: return 0;
    case 1: return 1;
    case 2: return 2;
    case 3: return rem - 1;          // wraps to 2^64-1 when rem == 0 (intended)
    case 4: return rem;
    case 5: return rem + 1;          // wraps to 0 when rem == 2^64-1
    case 6: return 1ULL << 63;
    case 7: return U64MAX - rem + 1; // 2^64 - rem  (index + n wraps to exactly the limit)
    case 8: return U64MAX;
    case 9: return U64MAX - rem;     // index + n == 2^64 - 1
    default: return 3;
  }
}
static std::string opname(const Op& o) {
  static const char* s[] = {"0", "1", "2", "rem-1", "rem", "rem+1", "2^63", "2^64-rem", "2^64-1", "2^64-1-rem", "3"};
  switch (o.kind) {
    case 'E': return std::string("Ensure/Prepare(") + s[o.sel] + ")";
    case 'B': return "byte";
    case 'R': return (o.sel ? "range(w" + std::to_string(o.sel) : std::string("range(bool")) + "x" + std::to_string(o.cnt) + ")";
    case 'S': return std::string("Skip(") + s[o.sel] + (o.val ? ",0x5a)" : ")");
    default: return std::string("Padding") + (o.val ? "(0x5a)" : "()");
  }
}

static std::vector<Op> alphabet() {
  std::vector<Op> a;
  for (int s = 0; s <= 10; s++) a.push_back({'E', s, 0, 0});
  a.push_back({'B', 0, 0, 0});
  for (int w : {1, 2, 4, 8})
    for (int c : {0, 1, 2, 3}) a.push_back({'R', w, c, 0});
  // width 0 = bool elements: the source bytes are not 0/1 - what the bytes MEAN is the decoder's business, the bounded
  // wrapper counts what the wrapped reader consumed
  for (int c : {1, 3}) a.push_back({'R', 0, c, 0});
  for (int s = 0; s <= 10; s++) a.push_back({'S', s, 0, 0});
  a.push_back({'S', 1, 0, 0x5a});
  a.push_back({'S', 4, 0, 0x5a});
  a.push_back({'P', 0, 0, 0});
  a.push_back({'P', 0, 0, 0x5a});
  return a;
}

static std::string callstr(const std::vector<Call>& log) {
  std::string o;
  for (auto& c : log) {
    char b[64];
    snprintf(b, sizeof b, "%c(%llu,%llu)", c.op, (unsigned long long)c.a, (unsigned long long)c.b);
    o += b;
  }
  return o;
}

// ---------------------------------------------------------------- reader side
struct RCfg { uint64_t limit; size_t src; long fail_at; };

struct RModel {
  uint64_t limit, used = 0;
  ProbeReader inner;
  RModel(uint64_t l, const uint8_t* d, size_t n) : limit(l), inner(d, n) {}
};
template <class T>
static int do_range_read(nop::BoundedReader<ProbeReader>& br, int cnt, std::vector<uint8_t>* got) {
  T buf[4] = {};
  St st = br.Read(&buf[0], &buf[cnt]);
  const uint8_t* p = reinterpret_cast<const uint8_t*>(buf);
  got->assign(p, p + cnt * sizeof(T));
  return ecode(st);
}
template <class T>
static int do_range_read_model(RModel& m, int cnt, std::vector<uint8_t>* got) {
  T buf[4] = {};
  const uint64_t k = (uint64_t)cnt * sizeof(T);
  got->assign(k, 0);
  if (k > m.limit - m.used) return (int)nop::ErrorStatus::ReadLimitReached;
  St st = m.inner.Read(&buf[0], &buf[cnt]);
  const uint8_t* p = reinterpret_cast<const uint8_t*>(buf);
  got->assign(p, p + k);
  if (!st) return ecode(st);
  m.used += k;
  return 0;
}

struct Step { int err; std::vector<uint8_t> data; };

static Step real_read(nop::BoundedReader<ProbeReader>& br, const Op& o) {
  Step s{0, {}};
  const uint64_t rem = br.capacity() - br.size();
  switch (o.kind) {
    case 'E': s.err = ecode(br.Ensure(resolve(o.sel, rem))); break;
    case 'B': { uint8_t b = 0; s.err = ecode(br.Read(&b)); s.data = {b}; break; }
    case 'R':
      s.err = o.sel == 0 ? do_range_read<bool>(br, o.cnt, &s.data) : o.sel == 1 ? do_range_read<uint8_t>(br, o.cnt, &s.data) : o.sel == 2 ? do_range_read<uint16_t>(br, o.cnt, &s.data)
              : o.sel == 4 ? do_range_read<uint32_t>(br, o.cnt, &s.data) : do_range_read<uint64_t>(br, o.cnt, &s.data);
      break;
    case 'S': s.err = ecode(br.Skip(resolve(o.sel, rem))); break;
    default: s.err = ecode(br.ReadPadding()); break;
  }
  return s;
}
static Step model_read(RModel& m, const Op& o) {
  Step s{0, {}};
  const uint64_t rem = m.limit - m.used;
  const int RLR = (int)nop::ErrorStatus::ReadLimitReached;
  switch (o.kind) {
    case 'E': {
      uint64_t n = resolve(o.sel, rem);
      if (n > rem) s.err = RLR; else s.err = ecode(m.inner.Ensure(n));
      break;
    }
    case 'B': {
      uint8_t b = 0;
      if (rem == 0) s.err = RLR;
      else { s.err = ecode(m.inner.Read(&b)); if (!s.err) m.used += 1; }
      s.data = {b};
      break;
    }
    case 'R':
      s.err = o.sel == 0 ? do_range_read_model<bool>(m, o.cnt, &s.data) : o.sel == 1 ? do_range_read_model<uint8_t>(m, o.cnt, &s.data) : o.sel == 2 ? do_range_read_model<uint16_t>(m, o.cnt, &s.data)
              : o.sel == 4 ? do_range_read_model<uint32_t>(m, o.cnt, &s.data) : do_range_read_model<uint64_t>(m, o.cnt, &s.data);
      break;
    case 'S': {
      uint64_t n = resolve(o.sel, rem);
      if (n > rem) s.err = RLR;
      else { s.err = ecode(m.inner.Skip(n)); if (!s.err) m.used += n; }
      break;
    }
    default: {
      s.err = ecode(m.inner.Skip(rem));
      if (!s.err) m.used = m.limit;
      break;
    }
  }
  return s;
}

static void explore_reader(const RCfg& c, const std::vector<Op>& ops, size_t max_depth) {
  std::vector<uint8_t> src(c.src);
  for (size_t i = 0; i < c.src; i++) src[i] = (uint8_t)(0x11 * (i + 1) + 3);
  char cfgb[96];
  snprintf(cfgb, sizeof cfgb, "R|limit%llu|src%zu|fail%ld", (unsigned long long)c.limit, c.src, c.fail_at);
  const std::string cfgs = cfgb;
  std::set<std::string> seen;
  std::deque<std::vector<int>> frontier;
  auto key = [&](const RModel& m) {
    long calls = (long)m.inner.log.size();
    if (c.fail_at < 0) calls = 0; else if (calls > c.fail_at + 1) calls = c.fail_at + 1;
    return std::to_string(m.used) + "/" + std::to_string(m.inner.pos) + "/" + std::to_string(calls);
  };
  {
    RModel m0(c.limit, src.data(), src.size());
    seen.insert(key(m0));
    frontier.push_back({});
  }
  while (!frontier.empty()) {
    std::vector<int> h = frontier.front();
    frontier.pop_front();
    for (size_t oi = 0; oi < ops.size(); oi++) {
      // fresh real objects and fresh model, history replayed
      ProbeReader inner(src.data(), src.size());
      inner.fail_at = c.fail_at;
      inner.fail_with = (int)nop::ErrorStatus::IOError;
      nop::BoundedReader<ProbeReader> br(&inner, c.limit);
      RModel m(c.limit, src.data(), src.size());
      m.inner.fail_at = c.fail_at;
      m.inner.fail_with = (int)nop::ErrorStatus::IOError;
      std::string hs;
      for (int pi : h) { real_read(br, ops[pi]); model_read(m, ops[pi]); hs += opname(ops[pi]) + ";"; }
      std::string cid = "C16|" + cfgs + "|" + hs + opname(ops[oi]);
      const bool report = R.want(cid);
      const size_t log0 = inner.log.size();
      Step a = real_read(br, ops[oi]);
      Step b = model_read(m, ops[oi]);
      R.counters["transitions"]++;
      R.counters["evaluations"]++;
      std::vector<Call> ra(inner.log.begin() + log0, inner.log.end()), rb(m.inner.log.begin() + log0, m.inner.log.end());
      std::string why;
      if (a.err != b.err) why = std::string("status ") + ename(a.err) + ", model " + ename(b.err);
      // a call the bound refuses must not touch the wrapped reader at all; a call within the bound must behave
      // like the wrapped reader (compared on status, data, budget and position - not on the exact call sequence)
      else if (rb.empty() && !ra.empty()) why = "the bound must refuse this call without touching the wrapped reader, but it issued [" + callstr(ra) + "]";
      else if (br.size() != m.used) why = "budget used " + std::to_string(br.size()) + ", model " + std::to_string(m.used);
      else if (!a.err && a.data != b.data) why = "delivered bytes differ from the model";
      else if (inner.pos != m.inner.pos) why = "wrapped reader at " + std::to_string(inner.pos) + ", model " + std::to_string(m.inner.pos);
      else if (ops[oi].kind == 'P' && !a.err && inner.pos != (size_t)c.limit) why = "after ReadPadding the wrapped reader is not at the limit";
      else if (br.empty() != (m.used == m.limit)) why = "empty() disagrees with the budget";
      if (inner.pos > c.limit && why.empty()) why = "more than the limit was consumed from the wrapped reader";
      if (!why.empty()) {
        if (!report) continue;
        R.outcome("MISMATCH");
        R.viol(std::string("C16|reader|") + ops[oi].kind + "|" + opname(ops[oi]), cid, why,
               "{\"config\":" + jstr(cfgs) + ",\"history\":" + jstr(hs) + ",\"op\":" + jstr(opname(ops[oi])) + "}");
        continue;
      }
      R.outcome(std::string(1, ops[oi].kind) + ":" + ename(a.err));
      std::string k = key(m);
      if (seen.insert(k).second && h.size() + 1 < max_depth) {
        std::vector<int> nh = h;
        nh.push_back((int)oi);
        frontier.push_back(nh);
      }
    }
  }
  R.counters["states"] += seen.size();
  R.distinct_direct += seen.size();
}

// ---------------------------------------------------------------- writer side
struct WModel {
  uint64_t limit, used = 0;
  ProbeWriter inner;
};
template <class T>
static int do_range_write(nop::BoundedWriter<ProbeWriter>& bw, int cnt, unsigned salt) {
  T buf[4];
  for (int i = 0; i < 4; i++) { uint64_t v = 0x0102030405060708ULL * (i + 1) + salt; memcpy(&buf[i], &v, sizeof(T)); }
  return ecode(bw.Write(&buf[0], &buf[cnt]));
}
template <class T>
static int do_range_write_model(WModel& m, int cnt, unsigned salt) {
  T buf[4];
  for (int i = 0; i < 4; i++) { uint64_t v = 0x0102030405060708ULL * (i + 1) + salt; memcpy(&buf[i], &v, sizeof(T)); }
  const uint64_t k = (uint64_t)cnt * sizeof(T);
  if (k > m.limit - m.used) return (int)nop::ErrorStatus::WriteLimitReached;
  St st = m.inner.Write(&buf[0], &buf[cnt]);
  if (!st) return ecode(st);
  m.used += k;
  return 0;
}
static int real_write(nop::BoundedWriter<ProbeWriter>& bw, const Op& o, unsigned salt) {
  const uint64_t rem = bw.capacity() - bw.size();
  switch (o.kind) {
    case 'E': return ecode(bw.Prepare(resolve(o.sel, rem)));
    case 'B': return ecode(bw.Write((uint8_t)(0xa0 + salt)));
    case 'R':
      return o.sel == 0 ? do_range_write<bool>(bw, o.cnt, salt) : o.sel == 1 ? do_range_write<uint8_t>(bw, o.cnt, salt) : o.sel == 2 ? do_range_write<uint16_t>(bw, o.cnt, salt)
             : o.sel == 4 ? do_range_write<uint32_t>(bw, o.cnt, salt) : do_range_write<uint64_t>(bw, o.cnt, salt);
    case 'S': return o.val ? ecode(bw.Skip(resolve(o.sel, rem), o.val)) : ecode(bw.Skip(resolve(o.sel, rem)));
    default: return o.val ? ecode(bw.WritePadding(o.val)) : ecode(bw.WritePadding());
  }
}
static int model_write(WModel& m, const Op& o, unsigned salt) {
  const uint64_t rem = m.limit - m.used;
  const int WLR = (int)nop::ErrorStatus::WriteLimitReached;
  switch (o.kind) {
    case 'E': {
      uint64_t n = resolve(o.sel, rem);
      if (n > rem) return WLR;
      return ecode(m.inner.Prepare(n));
    }
    case 'B': {
      if (rem == 0) return WLR;
      int e = ecode(m.inner.Write((uint8_t)(0xa0 + salt)));
      if (!e) m.used += 1;
      return e;
    }
    case 'R':
      return o.sel == 0 ? do_range_write_model<bool>(m, o.cnt, salt) : o.sel == 1 ? do_range_write_model<uint8_t>(m, o.cnt, salt) : o.sel == 2 ? do_range_write_model<uint16_t>(m, o.cnt, salt)
             : o.sel == 4 ? do_range_write_model<uint32_t>(m, o.cnt, salt) : do_range_write_model<uint64_t>(m, o.cnt, salt);
    case 'S': {
      uint64_t n = resolve(o.sel, rem);
      if (n > rem) return WLR;
      int e = ecode(m.inner.Skip(n, o.val));
      if (!e) m.used += n;
      return e;
    }
    default: {
      int e = ecode(m.inner.Skip(rem, o.val));
      if (!e) m.used = m.limit;
      return e;
    }
  }
}
struct WCfg { uint64_t limit; size_t inner_cap; long fail_at; };

static void explore_writer(const WCfg& c, const std::vector<Op>& ops, size_t max_depth) {
  char cfgb[96];
  snprintf(cfgb, sizeof cfgb, "W|limit%llu|inner%zu|fail%ld", (unsigned long long)c.limit, c.inner_cap, c.fail_at);
  const std::string cfgs = cfgb;
  std::set<std::string> seen;
  std::deque<std::vector<int>> frontier;
  auto key = [&](const WModel& m) {
    long calls = (long)m.inner.log.size();
    if (c.fail_at < 0) calls = 0; else if (calls > c.fail_at + 1) calls = c.fail_at + 1;
    return std::to_string(m.used) + "/" + std::to_string(m.inner.out.size()) + "/" + std::to_string(calls);
  };
  {
    WModel m0;
    m0.limit = c.limit;
    seen.insert(key(m0));
    frontier.push_back({});
  }
  while (!frontier.empty()) {
    std::vector<int> h = frontier.front();
    frontier.pop_front();
    for (size_t oi = 0; oi < ops.size(); oi++) {
      // skip sizes that would make the *model* inner writer allocate gigabytes: the inner capacity bounds them
      ProbeWriter inner;
      inner.capacity = c.inner_cap;
      inner.fail_at = c.fail_at;
      inner.fail_with = (int)nop::ErrorStatus::IOError;
      nop::BoundedWriter<ProbeWriter> bw(&inner, c.limit);
      WModel m;
      m.limit = c.limit;
      m.inner.capacity = c.inner_cap;
      m.inner.fail_at = c.fail_at;
      m.inner.fail_with = (int)nop::ErrorStatus::IOError;
      std::string hs;
      unsigned salt = 0;
      for (int pi : h) { real_write(bw, ops[pi], salt); model_write(m, ops[pi], salt); hs += opname(ops[pi]) + ";"; salt++; }
      std::string cid = "C16|" + cfgs + "|" + hs + opname(ops[oi]);
      const bool report = R.want(cid);
      const size_t log0 = inner.log.size();
      int a = real_write(bw, ops[oi], salt);
      int b = model_write(m, ops[oi], salt);
      R.counters["transitions"]++;
      R.counters["evaluations"]++;
      std::vector<Call> ra(inner.log.begin() + log0, inner.log.end()), rb(m.inner.log.begin() + log0, m.inner.log.end());
      std::string why;
      if (a != b) why = std::string("status ") + ename(a) + ", model " + ename(b);
      else if (rb.empty() && !ra.empty()) why = "the bound must refuse this call without touching the wrapped writer, but it issued [" + callstr(ra) + "]";
      else if (bw.size() != m.used) why = "budget used " + std::to_string(bw.size()) + ", model " + std::to_string(m.used);
      else if (inner.out != m.inner.out) why = "bytes written through the bound differ from the model (padding value?)";
      else if (ops[oi].kind == 'P' && !a && inner.out.size() != (size_t)c.limit) why = "after WritePadding the wrapped writer is not at the limit";
      if (inner.out.size() > c.limit && why.empty()) why = "more than the limit was written to the wrapped writer";
      if (!why.empty()) {
        if (!report) continue;
        R.outcome("MISMATCH");
        R.viol(std::string("C16|writer|") + ops[oi].kind + "|" + opname(ops[oi]), cid, why,
               "{\"config\":" + jstr(cfgs) + ",\"history\":" + jstr(hs) + ",\"op\":" + jstr(opname(ops[oi])) + "}");
        continue;
      }
      R.outcome(std::string(1, ops[oi].kind) + ":" + ename(a));
      std::string k = key(m);
      if (seen.insert(k).second && h.size() + 1 < max_depth) {
        std::vector<int> nh = h;
        nh.push_back((int)oi);
        frontier.push_back(nh);
      }
    }
  }
  R.counters["states"] += seen.size();
  R.distinct_direct += seen.size();
}

int main(int argc, char** argv) {
  A = Args::parse(argc, argv);
  R.only = A.only;
  std::vector<Op> ops = alphabet();
  const size_t depth = A.thorough() ? 64 : 64;  // searches run to fixpoint; the bound is a safety net
  std::vector<uint64_t> limits = {0, 1, 2, 3, 8, U64MAX, U64MAX - 1, 1ULL << 63};
  if (A.thorough()) { limits.push_back(5); limits.push_back(16); limits.push_back(9); }
  // negative control: a harness-side "bounded reader" that counts before the delegate succeeds must be flagged
  // (implemented by checking the model against a perturbed model)
  {
    uint8_t d[4] = {1, 2, 3, 4};
    ProbeReader inner(d, 4);
    inner.fail_at = 0;
    inner.fail_with = (int)nop::ErrorStatus::IOError;
    RModel m(4, d, 4);
    m.inner.fail_at = 0;
    m.inner.fail_with = (int)nop::ErrorStatus::IOError;
    Step s = model_read(m, {'B', 0, 0, 0});
    // a counting-before-success implementation would have used == 1 here; the oracle compares used, so it would differ
    if (!(s.err == (int)nop::ErrorStatus::IOError && m.used == 0)) { printf("{\"t\":\"broken\",\"msg\":\"model self-test\"}\n"); return 2; }
    R.add("negative_controls_flagged");
  }
  int cfgs = 0;
  for (uint64_t lim : limits) {
    std::vector<size_t> srcs;
    if (lim <= 16) srcs = {(size_t)lim, (size_t)lim + 3, lim > 0 ? (size_t)lim - 1 : 0};
    else srcs = {0, 5, 12};
    for (size_t s : srcs)
      for (long f : {-1L, 0L, 1L, 2L, 4L}) {
        if ((cfgs++ % A.nshards) != A.shard) continue;
        explore_reader({lim, s, f}, ops, depth);
        explore_writer({lim, s + 0, f}, ops, depth);
      }
  }
  R.sample("{\"config\":\"R|limit3|src6|fail-1\",\"history\":\"byte;range(w2x1);\",\"op\":\"Skip(rem+1)\",\"expect\":\"ReadLimitReached, no call on the wrapped reader\"}");
  R.sample("{\"config\":\"W|limit18446744073709551615|inner5|fail-1\",\"history\":\"byte;\",\"op\":\"Prepare(2^64-1)\",\"expect\":\"WriteLimitReached\"}");
  R.finish();
  return R.violations ? 1 : 0;
}
