// C18: table hashes / interface hashes / method selectors are SipHash-2-4 of the name bytes under the library's
// fixed keys; compile-time value == run-time value == independent reference, for every length and key explored.
#include <array>
#include <limits>
#include <string>
#include <vector>

#include <nop/rpc/interface.h>
#include <nop/table.h>
#include <nop/base/table.h>
#include <nop/utility/sip_hash.h>

#include "report.h"
#include "siphash_ref.h"

using namespace vf;
static Report R;
static Args A;

template <class T>
__attribute__((noinline)) static uint64_t lib_hash(const T* data, size_t n, uint64_t k0, uint64_t k1) {
  return nop::SipHash::Compute(nop::BlockReader<T>(data, n), k0, k1);
}

struct Key { uint64_t k0, k1; };
static std::vector<Key> keys(bool all) {
  std::vector<Key> k = {{0, 0}, {~0ULL, ~0ULL}, {kTableKey0, kTableKey1}, {kInterfaceKey0, kInterfaceKey1},
                        {0x0706050403020100ULL, 0x0f0e0d0c0b0a0908ULL}};
  if (all)
    for (int b = 0; b < 128; b++) k.push_back(b < 64 ? Key{1ULL << b, 0} : Key{0, 1ULL << (b - 64)});
  return k;
}

static void check_msg(const std::vector<uint8_t>& m, const Key& k, const char* family) {
  char idb[160];
  auto mk = [&](const char* as) {
    snprintf(idb, sizeof idb, "C18|rt|%s|len%zu|%s|k%016llx:%016llx|h%016llx", as, m.size(), family, (unsigned long long)k.k0,
             (unsigned long long)k.k1, (unsigned long long)fnv(std::string(m.begin(), m.end())));
    return std::string(idb);
  };
  const uint64_t want = siphash24(m.data(), m.size(), k.k0, k.k1);
  if (R.only.empty() || R.only == mk("uint8_t")) {
    const uint64_t got = lib_hash<uint8_t>(m.data(), m.size(), k.k0, k.k1);
    R.counters["evaluations"]++;
    R.distinct_direct += m.size() > 0;
    if (got != want) {
      char msg[200];
      snprintf(msg, sizeof msg, "SipHash::Compute over uint8_t[%zu] = %016llx, SipHash-2-4 = %016llx", m.size(), (unsigned long long)got, (unsigned long long)want);
      R.viol(std::string("C18|runtime-uint8|len%8=") + std::to_string(m.size() % 8), mk("uint8_t"), msg,
             "{\"msg\":" + jstr(hex(m, 40)) + "}");
    }
  }
  if (R.only.empty() || R.only == mk("char")) {
    const uint64_t got = lib_hash<char>(reinterpret_cast<const char*>(m.data()), m.size(), k.k0, k.k1);
    R.counters["evaluations"]++;
    R.distinct_direct += m.size() > 0;
    if (got != want) {
      bool high = false;
      for (uint8_t c : m) high |= c >= 0x80;
      char msg[200];
      snprintf(msg, sizeof msg, "SipHash::Compute over char[%zu] = %016llx, SipHash-2-4 of the same bytes = %016llx", m.size(), (unsigned long long)got, (unsigned long long)want);
      R.viol(std::string("C18|runtime-char|") + (high ? "bytes>=0x80" : "ascii"), mk("char"), msg, "{\"msg\":" + jstr(hex(m, 40)) + "}");
    }
  }
}

// ---------------------------------------------------------------- compile-time vs run-time vs reference on names
#define NAME_LIST(X)                                                                                                     \
  X(n0, "")                                                                                                              \
  X(n1, "a")                                                                                                             \
  X(n6, "abcdef")                                                                                                        \
  X(n7, "abcdefg")                                                                                                       \
  X(n8, "abcdefgh")                                                                                                      \
  X(n9, "abcdefghi")                                                                                                     \
  X(n15, "abcdefghijklmno")                                                                                              \
  X(n16, "abcdefghijklmnop")                                                                                             \
  X(n17, "abcdefghijklmnopq")                                                                                            \
  X(nT, "TestTable")                                                                                                     \
  X(nI, "io.github.eieio.examples.interface.Customer")                                                                   \
  X(nU, "\xc3\xa9t\xc3\xa9\xe2\x82\xac")                                                                                   \
  X(nH, "\xff\xfe\x80\x7f\x81")                                                                                           \
  X(nZ1, "proto\0v1")                                                                                                     \
  X(nZ2, "\0")                                                                                                            \
  X(nZ3, "ab\0\0cd\0")                                                                                                    \
  X(nL, "0123456789012345678901234567890123456789012345678901234567890123456789012345678901234567890123456789"           \
        "0123456789012345678901234567890123456789012345678901234567890123456789012345678901234567890123456789"           \
        "01234567890123456789012345678901234567890123456789012345678901234567890123456789")

#define X(id, str)                                                                                     \
  constexpr uint64_t ct_table_##id = nop::SipHash::Compute(str, nop::kNopTableKey0, nop::kNopTableKey1); \
  constexpr uint64_t ct_iface_##id = nop::SipHash::Compute(str, nop::kNopInterfaceKey0, nop::kNopInterfaceKey1);
NAME_LIST(X)
#undef X

template <size_t N>
__attribute__((noinline)) static uint64_t rt_hash_literal(const char (&s)[N], uint64_t k0, uint64_t k1) {
  // run-time evaluation: copy through a volatile so that nothing is folded
  char buf[N];
  volatile const char* v = s;
  for (size_t i = 0; i < N; i++) buf[i] = v[i];
  return nop::SipHash::Compute(nop::BlockReader<char>(buf, N), k0, k1);
}

template <size_t N>
static void check_name(const char* id, const char (&s)[N], uint64_t ct_table, uint64_t ct_iface) {
  const uint64_t ref_t = siphash24(reinterpret_cast<const uint8_t*>(s), N, kTableKey0, kTableKey1);
  const uint64_t ref_i = siphash24(reinterpret_cast<const uint8_t*>(s), N, kInterfaceKey0, kInterfaceKey1);
  const uint64_t rt_t = rt_hash_literal(s, kTableKey0, kTableKey1);
  const uint64_t rt_i = rt_hash_literal(s, kInterfaceKey0, kInterfaceKey1);
  bool high = false;
  for (size_t i = 0; i < N; i++) high |= (unsigned char)s[i] >= 0x80;
  std::string cid = std::string("C18|name|") + id;
  if (!R.want(cid)) return;
  R.counters["evaluations"] += 4;
  R.nontrivial(cid);
  auto bad = [&](const char* what, uint64_t a, uint64_t b) {
    char msg[256];
    snprintf(msg, sizeof msg, "name literal of %zu bytes (incl. NUL): %s: %016llx vs %016llx", N, what, (unsigned long long)a, (unsigned long long)b);
    R.viol(std::string("C18|name|") + what + (high ? "|bytes>=0x80" : "|ascii"), cid, msg, "{\"name\":" + jstr(hex(reinterpret_cast<const uint8_t*>(s), N, 48)) + "}");
  };
  if (ct_table != rt_t) bad("compile-time != run-time (table keys)", ct_table, rt_t);
  if (ct_iface != rt_i) bad("compile-time != run-time (interface keys)", ct_iface, rt_i);
  if (ct_table != ref_t) bad("compile-time != SipHash-2-4 (table keys)", ct_table, ref_t);
  if (ct_iface != ref_i) bad("compile-time != SipHash-2-4 (interface keys)", ct_iface, ref_i);
}

// ---------------------------------------------------------------- declared tables and interfaces
struct TabA { nop::Entry<int, 0> a; NOP_TABLE_NS("TabA", TabA, a); };
struct TabLong { nop::Entry<int, 0> a; NOP_TABLE_NS("a.rather.long.table.name/with:punctuation and spaces 0123456789", TabLong, a); };
struct TabUtf { nop::Entry<int, 0> a; NOP_TABLE_NS("t\xc3\xa4" "ble\xe2\x82\xac", TabUtf, a); };
struct TabEmpty { nop::Entry<int, 0> a; NOP_TABLE_NS("", TabEmpty, a); };
struct TabHash { nop::Entry<int, 0> a; NOP_TABLE_HASH(0x1122334455667788ULL, TabHash, a); };
struct TabZero { nop::Entry<int, 0> a; NOP_TABLE(TabZero, a); };

struct IfaceA : nop::Interface<IfaceA> {
  NOP_INTERFACE("IfaceA");
  NOP_METHOD(Add, int(int, int));
  NOP_METHOD(Name, std::string());
  NOP_METHOD(A_rather_long_method_name_0123456789, void(int));
  NOP_METHOD_SEL(127, Fixed127, void());
  NOP_INTERFACE_API(Add, Name, A_rather_long_method_name_0123456789, Fixed127);
};
// a method whose name is also an object-like macro where the interface is declared (as <windows.h> does with GetMessage):
// the selector is the hash of the name as written, not of what the macro expands to
#define GetMessage GetMessageA
struct IfaceM : nop::Interface<IfaceM> {
  NOP_INTERFACE("IfaceM");
  NOP_METHOD(GetMessage, int(int));
  NOP_INTERFACE_API(GetMessage);
};
static const std::uint64_t kAliasedSelector = IfaceM::GetMessage::Selector;
#undef GetMessage
struct Iface32 : nop::Interface<Iface32> {
  NOP_INTERFACE32("Iface32\xc3\xa9");
  NOP_METHOD(Add, int(int, int));
  NOP_METHOD(x, void());
  NOP_INTERFACE_API(Add, x);
};

struct RawW {
  uint8_t* b; size_t i = 0;
  nop::Status<void> Prepare(std::size_t) { return {}; }
  nop::Status<void> Write(std::uint8_t x) { b[i++] = x; return {}; }
  template <typename U, typename E = nop::EnableIfArithmetic<U>>
  nop::Status<void> Write(const U* s, const U* e) { size_t k = (e - s) * sizeof(U); memcpy(b + i, s, k); i += k; return {}; }
  nop::Status<void> Skip(std::size_t k, std::uint8_t v = 0) { memset(b + i, v, k); i += k; return {}; }
};
template <class T>
static void check_table(const char* cname, const char* str, bool named, uint64_t explicit_hash) {
  std::string cid = std::string("C18|table|") + cname;
  if (!R.want(cid)) return;
  const uint64_t lib = nop::EntryListTraits<T>::EntryList::Hash;
  const uint64_t want = named ? siphash24_cstr(str, kTableKey0, kTableKey1) : explicit_hash;
  // the hash as it travels on the wire
  T t;
  t.a = 1;
  uint8_t buf[64];
  RawW w{buf};
  nop::Encoding<T>::Write(t, &w);
  // TAB prefix then UINT64-class hash
  uint64_t wire = 0;
  {
    uint8_t p = buf[1];
    if (p < 0x80) wire = p;
    else {
      int n = p == 0x80 ? 1 : p == 0x81 ? 2 : p == 0x82 ? 4 : 8;
      for (int i = 0; i < n; i++) wire |= (uint64_t)buf[2 + i] << (8 * i);
    }
  }
  R.counters["evaluations"] += 2;
  R.nontrivial(cid);
  char msg[200];
  if (lib != want) {
    snprintf(msg, sizeof msg, "EntryList::Hash of %s = %016llx, expected %016llx", cname, (unsigned long long)lib, (unsigned long long)want);
    R.viol(std::string("C18|table-hash|") + (named ? "named" : "explicit"), cid, msg);
  }
  if (wire != want) {
    snprintf(msg, sizeof msg, "hash on the wire for %s = %016llx, expected %016llx", cname, (unsigned long long)wire, (unsigned long long)want);
    R.viol(std::string("C18|table-hash-on-wire|") + (named ? "named" : "explicit"), cid, msg);
  }
}

template <class Sel>
static void check_selector(const char* iface, const char* method, uint64_t iface_hash, uint64_t lib_sel) {
  std::string cid = std::string("C18|selector|") + iface + "." + method;
  if (!R.want(cid)) return;
  const uint64_t want = (uint64_t)(Sel)siphash24_cstr(method, iface_hash, kInterfaceKey1);
  R.counters["evaluations"]++;
  R.nontrivial(cid);
  if (lib_sel != want) {
    char msg[200];
    snprintf(msg, sizeof msg, "selector of %s.%s = %016llx, expected SipHash-2-4(name, k0=interface hash, k1=key1) = %016llx", iface, method,
             (unsigned long long)lib_sel, (unsigned long long)want);
    R.viol("C18|method-selector", cid, msg);
  }
}

int main(int argc, char** argv) {
  A = Args::parse(argc, argv);
  R.only = A.only;
  // negative control: a harness-side hash that sign-extends bytes must be flagged by the comparison
  {
    std::vector<uint8_t> m = {0x80, 0x01};
    uint64_t b = ((uint64_t)m.size() << 56) | (uint64_t)(int64_t)(int8_t)m[0] | ((uint64_t)m[1] << 8);
    uint64_t good = ((uint64_t)m.size() << 56) | (uint64_t)m[0] | ((uint64_t)m[1] << 8);
    if (b == good || siphash24(m.data(), 2, 0, 0) == 0) { printf("{\"t\":\"broken\",\"msg\":\"control\"}\n"); return 2; }
    // reference self-test: SipHash-2-4 paper vector (key 00..0f, message 00..0e) = a129ca6149be45e5
    uint8_t msg15[15];
    for (int i = 0; i < 15; i++) msg15[i] = (uint8_t)i;
    if (siphash24(msg15, 15, 0x0706050403020100ULL, 0x0f0e0d0c0b0a0908ULL) != 0xa129ca6149be45e5ULL) {
      printf("{\"t\":\"broken\",\"msg\":\"reference SipHash-2-4 fails the paper's test vector\"}\n");
      return 2;
    }
    R.add("negative_controls_flagged");
  }
  const bool thorough = A.thorough();
  std::vector<Key> ks = keys(true);
  std::vector<Key> few = keys(false);
  // all byte strings of length <= 2 (x 5 keys; x all 133 keys in the thorough tier)
  for (const Key& k : thorough ? ks : few) {
    check_msg({}, k, "all<=2");
    for (unsigned a = 0; a < 256; a++) {
      check_msg({(uint8_t)a}, k, "all<=2");
      for (unsigned b = 0; b < 256; b++) check_msg({(uint8_t)a, (uint8_t)b}, k, "all<=2");
    }
  }
  // every length 0..300 x 6 patterns x all 133 keys
  for (size_t len = 0; len <= (thorough ? 1100 : 300); len++) {
    std::vector<std::vector<uint8_t>> pats(6, std::vector<uint8_t>(len));
    for (size_t i = 0; i < len; i++) {
      pats[0][i] = (uint8_t)i; pats[1][i] = (uint8_t)(0xff - i); pats[2][i] = 0x00; pats[3][i] = 0x7f; pats[4][i] = 0x80; pats[5][i] = 0xff;
    }
    static const char* fam[] = {"i", "ff-i", "00", "7f", "80", "ff"};
    for (int p = 0; p < 6; p++)
      for (const Key& k : ks) check_msg(pats[p], k, fam[p]);
  }
#define X(id, str) check_name(#id, str, ct_table_##id, ct_iface_##id);
  NAME_LIST(X)
#undef X
  check_table<TabA>("TabA", "TabA", true, 0);
  check_table<TabLong>("TabLong", "a.rather.long.table.name/with:punctuation and spaces 0123456789", true, 0);
  check_table<TabUtf>("TabUtf", "t\xc3\xa4" "ble\xe2\x82\xac", true, 0);
  check_table<TabEmpty>("TabEmpty", "", true, 0);
  check_table<TabHash>("TabHash", "", false, 0x1122334455667788ULL);
  check_table<TabZero>("TabZero", "", false, 0);
  {
    const uint64_t ha = siphash24_cstr("IfaceA", kInterfaceKey0, kInterfaceKey1);
    std::string cid = "C18|iface|IfaceA";
    if (R.want(cid)) {
      R.counters["evaluations"]++;
      R.nontrivial(cid);
      if (IfaceA::GetInterfaceHash() != ha) R.viol("C18|interface-hash", cid, "interface hash differs from SipHash-2-4 of the name under the interface keys");
    }
    check_selector<uint64_t>("IfaceM", "GetMessage", siphash24_cstr("IfaceM", kInterfaceKey0, kInterfaceKey1), kAliasedSelector);
    check_selector<uint64_t>("IfaceA", "Add", ha, IfaceA::Add::Selector);
    check_selector<uint64_t>("IfaceA", "Name", ha, IfaceA::Name::Selector);
    check_selector<uint64_t>("IfaceA", "A_rather_long_method_name_0123456789", ha, IfaceA::A_rather_long_method_name_0123456789::Selector);
    if (R.want("C18|selector|IfaceA.Fixed127") && IfaceA::Fixed127::Selector != 127) R.viol("C18|method-selector-explicit", "C18|selector|IfaceA.Fixed127", "NOP_METHOD_SEL selector changed");
    const uint64_t hb = siphash24_cstr("Iface32\xc3\xa9", kInterfaceKey0, kInterfaceKey1);
    cid = "C18|iface|Iface32";
    if (R.want(cid)) {
      R.counters["evaluations"]++;
      R.nontrivial(cid);
      if (Iface32::GetInterfaceHash() != hb) R.viol("C18|interface-hash|bytes>=0x80", cid, "interface hash (non-ASCII name) differs from SipHash-2-4 of the name bytes");
    }
    check_selector<uint32_t>("Iface32", "Add", hb, Iface32::Add::Selector);
    check_selector<uint32_t>("Iface32", "x", hb, Iface32::x::Selector);
  }
  R.sample("{\"msg\":\"8001\",\"as\":\"char\",\"key\":\"table keys\",\"expect\":\"SipHash-2-4 of the two bytes\"}");
  R.sample("{\"name\":\"t\\u00e4ble\\u20ac (UTF-8, incl. NUL)\",\"check\":\"compile-time == run-time == reference; EntryList::Hash; hash on the wire\"}");
  R.finish();
  return R.violations ? 1 : 0;
}
