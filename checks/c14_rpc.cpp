// C14: RPC dispatch calls exactly the selected handler with the sent arguments.
// Single-threaded end-to-end loop: Invoke -> SimpleMethodSender -> request pipe -> (on demand) InterfaceBindings +
// SimpleMethodReceiver -> reply pipe -> Invoke's return. All call sequences up to a bounded length over an
// alphabet of (method, argument tuple) plus unbound selectors and every truncation / byte substitution / integer
// re-classing of recorded requests; reference = pure functions + an independent decoder for the request framing.
#include <array>
#include <functional>
#include <limits>
#include <map>
#include <set>
#include <string>
#include <vector>

#include <nop/rpc/interface.h>
#include <nop/rpc/simple_method_receiver.h>
#include <nop/rpc/simple_method_sender.h>
#include <nop/serializer.h>
#include <nop/structure.h>
#include <nop/base/map.h>
#include <nop/base/result.h>
#include <nop/base/string.h>
#include <nop/base/tuple.h>
#include <nop/base/variant.h>
#include <nop/base/vector.h>
#include <nop/base/array.h>

#include "mutate.h"
#include "types.h"

using namespace vf;
static Report R;
static Args A;

// ---------------------------------------------------------------- transport
struct Pipe {
  std::vector<uint8_t> buf;
  size_t rpos = 0;
  size_t avail() const { return buf.size() - rpos; }
  bool empty() const { return avail() == 0; }
  void clear() { buf.clear(); rpos = 0; }
};
struct Fault {
  long fail_at = -1;  // index of the primitive call that fails
  int fail_with = 0;
  long calls = 0, calls_after_failure = 0;
  bool failed = false;
  // returns true if this call must fail
  bool hit() {
    if (failed) calls_after_failure++;
    bool h = calls == fail_at;
    calls++;
    if (h) failed = true;
    return h;
  }
};
struct QWriter {
  Pipe* p;
  Fault f;
  nop::Status<void> Prepare(std::size_t) { if (f.hit()) return (nop::ErrorStatus)f.fail_with; return {}; }
  nop::Status<void> Write(std::uint8_t b) { if (f.hit()) return (nop::ErrorStatus)f.fail_with; p->buf.push_back(b); return {}; }
  template <typename T, typename E = nop::EnableIfArithmetic<T>>
  nop::Status<void> Write(const T* b, const T* e) {
    if (f.hit()) return (nop::ErrorStatus)f.fail_with;
    const uint8_t* s = reinterpret_cast<const uint8_t*>(b);
    p->buf.insert(p->buf.end(), s, s + (e - b) * sizeof(T));
    return {};
  }
  nop::Status<void> Skip(std::size_t n, std::uint8_t v = 0) { if (f.hit()) return (nop::ErrorStatus)f.fail_with; p->buf.insert(p->buf.end(), n, v); return {}; }
};
struct QReader {
  Pipe* p;
  std::function<void()> on_dry;  // runs the peer once when more bytes are needed
  Fault f;
  bool need(size_t n) {
    if (p->avail() < n && on_dry) on_dry();
    return p->avail() >= n;
  }
  nop::Status<void> Ensure(std::size_t n) { if (f.hit()) return (nop::ErrorStatus)f.fail_with; return need(n) ? nop::Status<void>{} : nop::Status<void>{nop::ErrorStatus::ReadLimitReached}; }
  nop::Status<void> Read(std::uint8_t* b) {
    if (f.hit()) return (nop::ErrorStatus)f.fail_with;
    if (!need(1)) return nop::ErrorStatus::ReadLimitReached;
    *b = p->buf[p->rpos++];
    return {};
  }
  template <typename T, typename E = nop::EnableIfArithmetic<T>>
  nop::Status<void> Read(T* b, T* e) {
    if (f.hit()) return (nop::ErrorStatus)f.fail_with;
    size_t k = (e - b) * sizeof(T);
    if (!need(k)) return nop::ErrorStatus::ReadLimitReached;
    if (k) memcpy(b, p->buf.data() + p->rpos, k);
    p->rpos += k;
    return {};
  }
  nop::Status<void> Skip(std::size_t n) {
    if (f.hit()) return (nop::ErrorStatus)f.fail_with;
    if (!need(n)) return nop::ErrorStatus::ReadLimitReached;
    p->rpos += n;
    return {};
  }
};

// ---------------------------------------------------------------- protocol types
struct MsgA { int a; std::string b; NOP_STRUCTURE(MsgA, a, b); };
struct MsgB { float a; std::vector<int> b; NOP_STRUCTURE(MsgB, a, b); };
struct Point { std::int16_t x; std::uint64_t y; NOP_STRUCTURE(Point, x, y); };
enum class Err : std::int32_t { None = 0, NotFound = 1, Big = 70000 };

struct IfA : nop::Interface<IfA> {
  NOP_INTERFACE("verif.rpc.IfA");
  NOP_METHOD(Sum, int(int a, int b));
  NOP_METHOD(Length, std::size_t(const std::string& s));
  NOP_METHOD(Match, bool(const nop::Variant<MsgA, MsgB>& m));
  NOP_METHOD(Keys, std::vector<std::string>(const std::map<std::uint32_t, std::string>& m));
  NOP_METHOD(Lookup, nop::Result<Err, std::string>(int key));
  NOP_METHOD(Scale, float(float f, Point p));
  NOP_METHOD(SumAll, int(std::vector<int> v));
  NOP_METHOD(Ping, int());                 // no protocol arguments: the request is selector + empty tuple
  NOP_METHOD(Version, std::string());
  NOP_METHOD(Unbound, int(int));
  NOP_INTERFACE_API(Sum, Length, Match, Keys, Lookup, Scale, SumAll, Ping, Version, Unbound);
};
struct If32 : nop::Interface<If32> {
  NOP_INTERFACE32("verif.rpc.If32");
  NOP_METHOD_SEL(0, Zero, int(int));
  NOP_METHOD_SEL(127, S127, int(int));
  NOP_METHOD_SEL(128, S128, int(int));
  NOP_METHOD_SEL(0xffffffffu, Max, int(int));
  NOP_METHOD(Named, int(int));
  NOP_METHOD_SEL(65536, NotBound, int(int));
  NOP_INTERFACE_API(Zero, S127, S128, Max, Named, NotBound);
};

// ---------------------------------------------------------------- handler log and pure reference functions
static std::vector<std::string> g_log;
static std::string istr(const std::vector<int>& v) { std::string s; for (int x : v) s += std::to_string(x) + ","; return s; }

static int ref_sum(int a, int b) { return (int)((unsigned)a + (unsigned)b); }
static int h_sum(int a, int b) { g_log.push_back("Sum(" + std::to_string(a) + "," + std::to_string(b) + ")"); return ref_sum(a, b); }
static std::size_t h_length(const std::string& s) { g_log.push_back("Length(" + s + ")"); return s.size(); }
static std::string match_str(const nop::Variant<MsgA, MsgB>& m) {
  if (m.is<MsgA>()) return "A:" + std::to_string(m.get<MsgA>()->a) + ":" + m.get<MsgA>()->b;
  if (m.is<MsgB>()) { uint32_t bits; memcpy(&bits, &m.get<MsgB>()->a, 4); return "B:" + std::to_string(bits) + ":" + istr(m.get<MsgB>()->b); }
  return "empty";
}
struct Server {
  int id = 7;
  bool OnMatch(const nop::Variant<MsgA, MsgB>& m) const { g_log.push_back("Match(" + match_str(m) + ")#" + std::to_string(id)); return m.is<MsgA>(); }
  std::vector<std::string> OnKeys(const std::map<std::uint32_t, std::string>& m) {
    std::string s;
    std::vector<std::string> out;
    for (auto& kv : m) { s += std::to_string(kv.first) + "=" + kv.second + ";"; out.push_back(kv.second + "#" + std::to_string(kv.first)); }
    g_log.push_back("Keys(" + s + ")#" + std::to_string(id));
    return out;
  }
  int OnSum(int a, int b) { g_log.push_back("Sum(" + std::to_string(a) + "," + std::to_string(b) + ")#" + std::to_string(id)); return ref_sum(a, b); }
  std::size_t OnLength(const std::string& s) { g_log.push_back("Length(" + s + ")#" + std::to_string(id)); return s.size(); }
};
static nop::Result<Err, std::string> ref_lookup(int k) {
  if (k == 7) return {};  // a Result in the empty state is a legal return value too
  if (k == 1) return std::string("one");
  if (k == 2) return std::string(300, 'z');
  if (k > 1000) return Err::Big;
  return Err::NotFound;
}
static float ref_scale(float f, Point p) { return f * (float)p.x + (float)(p.y & 0xff); }

// ---------------------------------------------------------------- connection
struct Conn {
  Pipe req, rep;
  QWriter cw{&req};
  QReader cr{&rep, nullptr};
  QWriter sw{&rep};
  QReader sr{&req, nullptr};
  nop::Serializer<QWriter*> cser{&cw};
  nop::Deserializer<QReader*> cdes{&cr};
  nop::Serializer<QWriter*> sser{&sw};
  nop::Deserializer<QReader*> sdes{&sr};
  int server_runs = 0;
  int last_server_status = -1;
  size_t reply_bytes_last = 0;
};

// ---------------------------------------------------------------- one operation of the alphabet
struct CallOp {
  std::string name;
  // performs the call on a client whose reader pumps `serve` when dry; returns "" or a diagnostic
  std::function<std::string(Conn&)> run;
  std::string expect_log;  // handler log entry expected (without #id suffix)
};

static int g_last_invoke_error = 0;
template <class Method, class Ret, class... Args2>
static std::string do_invoke(Conn& c, const Ret& want, bool (*eq)(const Ret&, const Ret&), Args2&&... args) {
  auto sender = nop::MakeSimpleMethodSender(&c.cser, &c.cdes);
  auto st = Method::Invoke(&sender, std::forward<Args2>(args)...);
  g_last_invoke_error = st ? 0 : (int)st.error();
  if (!st) return std::string("Invoke failed with ") + std::to_string((int)st.error());
  if (!eq(st.get(), want)) return "Invoke returned a different value than the handler's return value";
  return "";
}
template <class T>
static bool eq_plain(const T& a, const T& b) { return a == b; }
static bool eq_float(const float& a, const float& b) { return memcmp(&a, &b, 4) == 0; }
static bool eq_result(const nop::Result<Err, std::string>& a, const nop::Result<Err, std::string>& b) {
  if (a.has_value() != b.has_value()) return false;
  if (a.has_value()) return a.get() == b.get();
  return a.error() == b.error();
}

static std::vector<CallOp> alphabet_a() {
  std::vector<CallOp> ops;
  for (auto ab : std::vector<std::pair<int, int>>{{2, 40}, {-65, 128}, {INT32_MAX, 1}, {0, 0}}) {
    int a = ab.first, b = ab.second;
    ops.push_back({"Sum(" + std::to_string(a) + "," + std::to_string(b) + ")",
                   [a, b](Conn& c) { return do_invoke<IfA::Sum, int>(c, ref_sum(a, b), eq_plain<int>, a, b); },
                   "Sum(" + std::to_string(a) + "," + std::to_string(b) + ")"});
  }
  // conforming arguments: the caller's integral types differ in width and signedness from the declared parameters; the
  // request still carries the declared types (the handler decodes int, int)
  ops.push_back({"Sum(short -65,uint8 200)",
                 [](Conn& c) { return do_invoke<IfA::Sum, int>(c, ref_sum(-65, 200), eq_plain<int>, (short)-65, (std::uint8_t)200); }, "Sum(-65,200)"});
  ops.push_back({"Sum(int64 300,uint16 40000)",
                 [](Conn& c) { return do_invoke<IfA::Sum, int>(c, ref_sum(300, 40000), eq_plain<int>, (std::int64_t)300, (std::uint16_t)40000); }, "Sum(300,40000)"});
  ops.push_back({"Lookup(uint16 5000)",
                 [](Conn& c) { return do_invoke<IfA::Lookup, nop::Result<Err, std::string>>(c, ref_lookup(5000), eq_result, (std::uint16_t)5000); }, "Lookup(5000)"});
  for (std::string s : {std::string(""), std::string("hello"), std::string(300, 'x')}) {
    ops.push_back({"Length(" + std::to_string(s.size()) + "B)",
                   [s](Conn& c) { return do_invoke<IfA::Length, std::size_t>(c, s.size(), eq_plain<std::size_t>, s); }, "Length(" + s + ")"});
  }
  {
    nop::Variant<MsgA, MsgB> va{MsgA{5, "five"}}, vb{MsgB{1.5f, {1, 2, 3}}}, ve;
    for (auto v : {va, vb, ve})
      ops.push_back({"Match(" + match_str(v) + ")", [v](Conn& c) { return do_invoke<IfA::Match, bool>(c, v.template is<MsgA>(), eq_plain<bool>, v); },
                     "Match(" + match_str(v) + ")"});
  }
  for (auto m : std::vector<std::map<std::uint32_t, std::string>>{{}, {{1, "a"}, {70000, "bb"}}}) {
    std::string s;
    std::vector<std::string> want;
    for (auto& kv : m) { s += std::to_string(kv.first) + "=" + kv.second + ";"; want.push_back(kv.second + "#" + std::to_string(kv.first)); }
    ops.push_back({"Keys(" + s + ")", [m, want](Conn& c) { return do_invoke<IfA::Keys, std::vector<std::string>>(c, want, eq_plain<std::vector<std::string>>, m); },
                   "Keys(" + s + ")"});
  }
  for (int k : {1, 2, 3, 7, 5000})
    ops.push_back({"Lookup(" + std::to_string(k) + ")",
                   [k](Conn& c) { return do_invoke<IfA::Lookup, nop::Result<Err, std::string>>(c, ref_lookup(k), eq_result, k); },
                   "Lookup(" + std::to_string(k) + ")"});
  for (auto fp : std::vector<std::pair<float, Point>>{{1.5f, {2, 3}}, {-0.0f, {-300, 0xffffffffffULL}}}) {
    float f = fp.first;
    Point p = fp.second;
    ops.push_back({"Scale(" + std::to_string(f) + ")", [f, p](Conn& c) { return do_invoke<IfA::Scale, float>(c, ref_scale(f, p), eq_float, f, p); },
                   "Scale(" + std::to_string(p.x) + "," + std::to_string(p.y) + ")"});
  }
  // fungible / conforming substitutions: declared vector<int>, handler takes array<int,3>, caller passes array / vector
  ops.push_back({"SumAll(vector{1,2,3})", [](Conn& c) { return do_invoke<IfA::SumAll, int>(c, 6, eq_plain<int>, std::vector<int>{1, 2, 3}); }, "SumAll(1,2,3,)"});
  // an lvalue argument for a by-value parameter: the request carries its value and the caller still owns it afterwards
  ops.push_back({"SumAll(lvalue{7,8,9})",
                 [](Conn& c) {
                   std::vector<int> v{7, 8, 9};
                   std::string r = do_invoke<IfA::SumAll, int>(c, 24, eq_plain<int>, v);
                   if (r.empty() && v != std::vector<int>{7, 8, 9}) r = "Invoke changed the caller's lvalue argument (now " + std::to_string(v.size()) + " elements)";
                   return r;
                 },
                 "SumAll(7,8,9,)"});
  ops.push_back({"Ping()", [](Conn& c) { return do_invoke<IfA::Ping, int>(c, 4711, eq_plain<int>); }, "Ping()"});
  ops.push_back({"Version()", [](Conn& c) { return do_invoke<IfA::Version, std::string>(c, std::string("v1.2"), eq_plain<std::string>); }, "Version()"});
  ops.push_back({"SumAll(array{4,5,6})", [](Conn& c) { return do_invoke<IfA::SumAll, int>(c, 15, eq_plain<int>, std::array<int, 3>{{4, 5, 6}}); }, "SumAll(4,5,6,)"});
  return ops;
}

// server-side bindings for IfA without passthrough (lambdas, function pointer)
static auto make_bindings_a() {
  return nop::BindInterface(
      IfA::Sum::Bind([](int a, int b) { return h_sum(a, b); }),
      IfA::Length::Bind(&h_length),
      IfA::Match::Bind([](const nop::Variant<MsgA, MsgB>& m) { g_log.push_back("Match(" + match_str(m) + ")"); return m.is<MsgA>(); }),
      IfA::Keys::Bind([](const std::map<std::uint32_t, std::string>& m) {
        Server s;
        auto r = s.OnKeys(m);
        g_log.back() = g_log.back().substr(0, g_log.back().find('#'));
        return r;
      }),
      IfA::Lookup::Bind([](int k) { g_log.push_back("Lookup(" + std::to_string(k) + ")"); return ref_lookup(k); }),
      IfA::Scale::Bind([](float f, Point p) { g_log.push_back("Scale(" + std::to_string(p.x) + "," + std::to_string(p.y) + ")"); return ref_scale(f, p); }),
      IfA::Ping::Bind([]() { g_log.push_back("Ping()"); return 4711; }),
      IfA::Version::Bind([]() { g_log.push_back("Version()"); return std::string("v1.2"); }),
      IfA::SumAll::Bind([](const std::array<int, 3>& v) { g_log.push_back("SumAll(" + istr(std::vector<int>(v.begin(), v.end())) + ")"); return v[0] + v[1] + v[2]; }));
}

template <class Bindings, class... Pass>
static void serve_once(Conn& c, const Bindings& b, Pass... pass) {
  auto receiver = nop::MakeSimpleMethodReceiver(&c.sser, &c.sdes);
  const size_t before = c.rep.buf.size();
  auto st = b(&receiver, static_cast<Pass&&>(pass)...);
  c.server_runs++;
  c.last_server_status = st ? 0 : (int)st.error();
  c.reply_bytes_last = c.rep.buf.size() - before;
}

// ---------------------------------------------------------------- re-entrant dispatch
// A handler that, while it runs, causes the SAME bound method to be dispatched again on the same thread (a proxy or a
// recursive service): the arguments of the outer call - which the handler holds by reference - must still be the ones the
// outer caller sent when the nested dispatch returns. Every nesting depth 0..3 x three path values x two binding kinds.
struct IfR : nop::Interface<IfR> {
  NOP_INTERFACE("verif.rpc.IfR");
  NOP_METHOD(Describe, std::string(const std::string& path, int depth));
  NOP_INTERFACE_API(Describe);
};
static std::function<void(Conn&)> g_serve_r;
static std::string join(const std::vector<std::string>& v, const char* sep) { std::string o; for (auto& x : v) o += (o.empty() ? "" : sep) + x; return o; }
static std::string nested_describe(const std::string& path, int depth) {
  Conn c;
  c.cr.on_dry = [&]() { if (!c.req.empty()) g_serve_r(c); };
  auto sender = nop::MakeSimpleMethodSender(&c.cser, &c.cdes);
  auto st = IfR::Describe::Invoke(&sender, path, depth);
  if (!st) return "<nested Invoke failed " + std::to_string((int)st.error()) + ">";
  if (!c.req.empty() || !c.rep.empty()) return "<nested connection out of frame>";
  return st.get();
}
static std::string describe_body(const std::string& path, int depth, const char* suffix) {
  std::string inner;
  if (depth > 0) inner = nested_describe(path + "/" + std::to_string(depth), depth - 1);
  g_log.push_back("Describe(" + path + "," + std::to_string(depth) + ")" + suffix);  // after the nested call: the references must still hold
  return path + "[" + inner + "]";
}
static std::string h_describe(const std::string& path, int depth) { return describe_body(path, depth, ""); }
struct SrvR {
  int id = 5;
  std::string OnDescribe(const std::string& path, int depth) { return describe_body(path, depth, "#5"); }
};
static std::string ref_describe(const std::string& path, int depth, std::vector<std::string>* log, const char* suffix) {
  std::string inner;
  if (depth > 0) inner = ref_describe(path + "/" + std::to_string(depth), depth - 1, log, suffix);
  log->push_back("Describe(" + path + "," + std::to_string(depth) + ")" + suffix);
  return path + "[" + inner + "]";
}
static void explore_reentrant(const char* tag, const char* suffix) {
  for (int depth = 0; depth <= 3; depth++)
    for (const std::string& path : {std::string("a"), std::string(40, 'p'), std::string()}) {
      const std::string cid = std::string("C14|reentrant|") + tag + "|depth" + std::to_string(depth) + "|path" + std::to_string(path.size());
      if (!R.want(cid)) continue;
      R.counters["transitions"] += depth + 1;
      R.counters["evaluations"] += depth + 1;
      R.counters["states"]++;
      R.nontrivial(cid);
      g_log.clear();
      std::vector<std::string> want_log;
      const std::string want = ref_describe(path, depth, &want_log, suffix);
      const std::string got = nested_describe(path, depth);
      std::string why;
      if (got != want) why = "Invoke returned '" + got.substr(0, 120) + "', the handlers' reference result is '" + want.substr(0, 120) + "'";
      else if (g_log != want_log) why = "handler invocations (arguments as seen after the nested dispatch returned) were [" + join(g_log, ";").substr(0, 200) + "], expected [" + join(want_log, ";").substr(0, 200) + "]";
      if (!why.empty()) {
        R.outcome("MISMATCH");
        R.viol(std::string("C14|reentrant|") + tag, cid, why, "{\"depth\":" + std::to_string(depth) + ",\"path_length\":" + std::to_string(path.size()) + "}");
      } else R.outcome("reentrant-ok");
    }
}

// ---------------------------------------------------------------- sequences of successful calls
template <class Bindings, class... Pass>
static void explore_sequences(const char* tag, const std::vector<CallOp>& ops, const Bindings& b, size_t depth, const char* suffix, Pass... pass) {
  std::vector<size_t> idx;
  std::function<void()> rec = [&]() {
    if (!idx.empty()) {
      // execute the whole sequence on a fresh connection
      Conn c;
      c.cr.on_dry = [&]() { if (!c.req.empty()) serve_once(c, b, pass...); };
      g_log.clear();
      std::string seq;
      for (size_t k = 0; k < idx.size(); k++) seq += ops[idx[k]].name + ";";
      std::string cid = std::string("C14|seq|") + tag + "|" + seq;
      if (R.want(cid)) {
        R.counters["transitions"] += idx.size();
        R.counters["evaluations"] += idx.size();
        R.counters["states"]++;
        R.nontrivial(cid);
        for (size_t k = 0; k < idx.size(); k++) {
          const CallOp& op = ops[idx[k]];
          const size_t log0 = g_log.size();
          const int runs0 = c.server_runs;
          std::string why = op.run(c);
          std::string want = op.expect_log + suffix;
          if (why.empty() && (g_log.size() != log0 + 1 || g_log.back() != want))
            why = "handler log after the call: expected exactly one entry '" + want + "', got " + std::to_string(g_log.size() - log0) + " entries" +
                  (g_log.size() > log0 ? " ('" + g_log.back() + "')" : "");
          if (why.empty() && c.server_runs != runs0 + 1) why = "the dispatcher ran " + std::to_string(c.server_runs - runs0) + " times for one call";
          if (why.empty() && (!c.req.empty() || !c.rep.empty()))
            why = "after a successful call " + std::to_string(c.req.avail()) + " request bytes and " + std::to_string(c.rep.avail()) + " reply bytes are left on the connection";
          if (!why.empty()) {
            R.outcome("MISMATCH");
            R.viol(std::string("C14|call|") + tag + "|" + op.name.substr(0, op.name.find('(')), cid, "call #" + std::to_string(k) + " " + op.name + ": " + why,
                   "{\"sequence\":" + jstr(seq) + "}");
            break;
          }
          R.outcome("call-ok");
        }
      }
    }
    if (idx.size() == depth) return;
    for (size_t i = 0; i < ops.size(); i++) { idx.push_back(i); rec(); idx.pop_back(); }
  };
  rec();
}

// ---------------------------------------------------------------- failing requests: unbound selectors and mutated requests
// reference decoding of a request: selector (UINT of the selector width) then the argument tuple
template <class Sel>
static void explore_bad_requests(const char* tag, const std::vector<CallOp>& ops, const std::function<void(Conn&)>& serve,
                                 const std::map<uint64_t, Sch>& bound, const std::vector<uint64_t>& unbound) {
  // record the request bytes of every op by invoking with the server offline
  for (size_t i = 0; i < ops.size(); i++) {
    Conn rec;
    g_log.clear();
    ops[i].run(rec);  // fails on the client side (no reply), the request is in rec.req
    std::vector<uint8_t> reqbytes = rec.req.buf;
    if (reqbytes.empty()) continue;
    // find selector + schema
    Dec d0; d0.p = reqbytes.data(); d0.end = reqbytes.size();
    uint64_t sel = 0;
    if (!dec_uint(d0, sizeof(Sel), &sel) || !bound.count(sel)) continue;
    const Sch& args = bound.at(sel);
    // candidate inputs: truncations, byte substitutions (<= 40 bytes), class re-encodings via the field map of the args
    std::vector<std::pair<std::string, std::vector<uint8_t>>> inputs;
    for (size_t k = 0; k < reqbytes.size(); k++) inputs.push_back({"truncate@" + std::to_string(k), std::vector<uint8_t>(reqbytes.begin(), reqbytes.begin() + k)});
    if (reqbytes.size() <= 40)
      for (size_t p = 0; p < reqbytes.size(); p++)
        for (unsigned x = 0; x < 256; x++) {
          if (x == reqbytes[p]) continue;
          auto m = reqbytes;
          m[p] = (uint8_t)x;
          inputs.push_back({"bytesub@" + std::to_string(p) + ":" + std::to_string(x), m});
        }
    for (uint64_t u : unbound) {
      std::vector<uint8_t> m = min_uint(u);
      m.insert(m.end(), reqbytes.begin() + d0.pos, reqbytes.end());
      inputs.push_back({"unbound-selector:" + std::to_string(u), m});
    }
    for (auto& in : inputs) {
      std::string cid = std::string("C14|bad|") + tag + "|" + ops[i].name + "|" + in.first;
      if (!R.want(cid)) continue;
      // reference verdict
      Dec d; d.p = in.second.data(); d.end = in.second.size();
      uint64_t s2 = 0;
      int want_err = 0;  // 0: must succeed
      bool has_handler = false;
      if (!dec_uint(d, sizeof(Sel), &s2)) want_err = d.cat == Cat::Trunc ? (int)nop::ErrorStatus::ReadLimitReached : (int)nop::ErrorStatus::UnexpectedEncodingType;
      else if (!bound.count(s2)) want_err = (int)nop::ErrorStatus::InvalidInterfaceMethod;
      else {
        has_handler = true;
        Val v;
        if (!refdec(bound.at(s2), d, v)) want_err = -1;  // some decode error (category checked only for truncation)
        if (want_err == -1 && d.cat == Cat::Trunc) want_err = (int)nop::ErrorStatus::ReadLimitReached;
      }
      (void)has_handler;
      (void)args;
      Conn c;
      c.req.buf = in.second;
      g_log.clear();
      serve(c);
      R.counters["evaluations"]++;
      R.counters["transitions"]++;
      R.distinct_direct++;
      std::string why;
      if (want_err == 0) {
        if (c.last_server_status != 0) why = "well-formed request for a bound method failed with status " + std::to_string(c.last_server_status);
        else if (g_log.size() != 1) why = "well-formed request: handler ran " + std::to_string(g_log.size()) + " times";
        else if (c.reply_bytes_last == 0) why = "well-formed request produced no reply";
      } else {
        if (c.last_server_status == 0) why = "malformed request was dispatched successfully";
        else if (want_err > 0 && c.last_server_status != want_err) why = "expected status " + std::to_string(want_err) + ", dispatcher returned " + std::to_string(c.last_server_status);
        else if (!g_log.empty()) why = "a handler ran (" + g_log[0] + ") although the request must be rejected with status " + std::to_string(c.last_server_status);
        else if (c.reply_bytes_last != 0) why = std::to_string(c.reply_bytes_last) + " reply bytes were sent for a rejected request";
      }
      if (!why.empty()) {
        R.outcome("MISMATCH");
        R.viol(std::string("C14|bad-request|") + tag + "|" + in.first.substr(0, in.first.find_first_of("@:")) + "|" + (want_err == 0 ? "should-succeed" : c.last_server_status == 0 ? "dispatched" : g_log.empty() ? "status" : "handler-ran"),
               cid, why, "{\"request\":" + jstr(hex(in.second)) + ",\"derived_from\":" + jstr(ops[i].name) + "}");
      } else {
        R.outcome(want_err == 0 ? "accepted" : "rejected:" + std::to_string(c.last_server_status));
      }
    }
  }
}

// I/O faults on the caller's side: every primitive call of the client's writer and reader fails in turn; Invoke must
// return that error, issue no further calls on the failed object, and (writer faults) never run the server afterwards
template <class Bindings>
static void explore_client_faults(const char* tag, const std::vector<CallOp>& ops, const Bindings& b) {
  for (size_t i = 0; i < ops.size(); i++) {
    long wcalls = 0, rcalls = 0;
    {
      Conn c;
      c.cr.on_dry = [&]() { if (!c.req.empty()) serve_once(c, b); };
      g_log.clear();
      ops[i].run(c);
      wcalls = c.cw.f.calls;
      rcalls = c.cr.f.calls;
    }
    for (int side = 0; side < 2; side++)
      for (long k = 0; k < (side == 0 ? wcalls : rcalls); k++)
        for (int e : {(int)nop::ErrorStatus::IOError, (int)nop::ErrorStatus::WriteLimitReached, (int)nop::ErrorStatus::StreamError}) {
          std::string cid = std::string("C14|fault|") + tag + "|" + ops[i].name + "|" + (side == 0 ? "W" : "R") + std::to_string(k) + "|e" + std::to_string(e);
          if (!R.want(cid)) continue;
          Conn c;
          c.cr.on_dry = [&]() { if (!c.req.empty()) serve_once(c, b); };
          Fault& f = side == 0 ? c.cw.f : c.cr.f;
          f.fail_at = k;
          f.fail_with = e;
          g_log.clear();
          ops[i].run(c);
          R.counters["evaluations"]++;
          R.counters["transitions"]++;
          R.distinct_direct++;
          std::string why;
          if (g_last_invoke_error != e) why = "client I/O call #" + std::to_string(k) + " failed with " + std::to_string(e) + " but Invoke returned status " + std::to_string(g_last_invoke_error);
          else if (f.calls_after_failure) why = std::to_string(f.calls_after_failure) + " further calls on the failed " + (side == 0 ? "writer" : "reader");
          else if (side == 0 && c.server_runs) why = "the request was dispatched although writing it failed";
          else if (side == 0 && c.cr.f.calls) why = "the caller waited for a reply although writing the request failed";
          if (!why.empty()) {
            R.outcome("MISMATCH");
            R.viol(std::string("C14|client-fault|") + (side == 0 ? "write" : "read"), cid, why, "{\"call\":" + jstr(ops[i].name) + "}");
          } else {
            R.outcome("fault-propagated");
          }
        }
  }
}

template <class... Ts>
static Sch args_sch() { return Br<std::tuple<Ts...>>::sch(); }

namespace vf {
template <> struct Br<MsgA> {
  static Sch sch() { Sch s = Sch::Of(K::Stu); s.kids = {Br<int>::sch(), Br<std::string>::sch()}; return s; }
  static std::string name() { return "MsgA"; }
};
template <> struct Br<MsgB> {
  static Sch sch() { Sch s = Sch::Of(K::Stu); s.kids = {Br<float>::sch(), Br<std::vector<int>>::sch()}; return s; }
  static std::string name() { return "MsgB"; }
};
template <> struct Br<Point> {
  static Sch sch() { Sch s = Sch::Of(K::Stu); s.kids = {Br<std::int16_t>::sch(), Br<std::uint64_t>::sch()}; return s; }
  static std::string name() { return "Point"; }
};
}  // namespace vf

#ifdef C14_PASSTHROUGH
// Handlers with leading passthrough parameters: a lambda taking the instance, a method taking an extra context.
struct Ctx { int tag; };
struct Server2 {
  int id = 9;
  int OnSum(Ctx* ctx, int a, int b) { g_log.push_back("Sum(" + std::to_string(a) + "," + std::to_string(b) + ")#" + std::to_string(id) + "/" + std::to_string(ctx->tag)); return ref_sum(a, b); }
};
static auto make_bindings_pass_lambda() {
  return nop::BindInterface<Server*>(
      IfA::Sum::Bind([](Server* s, int a, int b) { return s->OnSum(a, b); }),
      IfA::Length::Bind(&Server::OnLength),
      IfA::Match::Bind(&Server::OnMatch),
      IfA::Keys::Bind(&Server::OnKeys));
}
static auto make_bindings_pass_method() {
  return nop::BindInterface<Server2*, Ctx*>(IfA::Sum::Bind(&Server2::OnSum));
}
#endif

int main(int argc, char** argv) {
  A = Args::parse(argc, argv);
  R.only = A.only;
  const size_t depth = A.thorough() ? 3 : 2;
  std::vector<CallOp> ops = alphabet_a();
#ifndef C14_PASSTHROUGH
  {
    auto b = make_bindings_a();
    explore_sequences("lambda+fnptr", ops, b, depth, "");
    std::map<uint64_t, Sch> bound = {
        {IfA::Sum::Selector, args_sch<int, int>()},
        {IfA::Length::Selector, args_sch<std::string>()},
        {IfA::Match::Selector, args_sch<nop::Variant<MsgA, MsgB>>()},
        {IfA::Keys::Selector, args_sch<std::map<std::uint32_t, std::string>>()},
        {IfA::Lookup::Selector, args_sch<int>()},
        {IfA::Scale::Selector, args_sch<float, Point>()},
        {IfA::SumAll::Selector, args_sch<std::array<int, 3>>()},  // the handler (not the declaration) decides what is decoded
        {IfA::Ping::Selector, args_sch<>()},
        {IfA::Version::Selector, args_sch<>()},
    };
    explore_bad_requests<std::uint64_t>("lambda+fnptr", ops, [&](Conn& c) { serve_once(c, b); }, bound,
                                        {IfA::Unbound::Selector, 0, 1, IfA::Sum::Selector ^ 1, IfA::Sum::Selector & 0xffffffffULL});
    explore_client_faults("lambda+fnptr", ops, b);
  }
  {
    // method-pointer bindings with the instance as passthrough argument; partial binding (4 of 8 methods)
    auto b = nop::BindInterface<Server*>(IfA::Sum::Bind(&Server::OnSum), IfA::Length::Bind(&Server::OnLength),
                                         IfA::Match::Bind(&Server::OnMatch), IfA::Keys::Bind(&Server::OnKeys));
    Server srv;
    std::vector<CallOp> sub;
    for (auto& o : ops)
      if (o.name.compare(0, 3, "Sum") == 0 && o.name.compare(0, 6, "SumAll") != 0) sub.push_back(o);
      else if (o.name.compare(0, 6, "Length") == 0 || o.name.compare(0, 5, "Match") == 0 || o.name.compare(0, 4, "Keys") == 0) sub.push_back(o);
    explore_sequences("method+instance", sub, b, depth, "#7", &srv);
    std::map<uint64_t, Sch> bound = {
        {IfA::Sum::Selector, args_sch<int, int>()},
        {IfA::Length::Selector, args_sch<std::string>()},
        {IfA::Match::Selector, args_sch<nop::Variant<MsgA, MsgB>>()},
        {IfA::Keys::Selector, args_sch<std::map<std::uint32_t, std::string>>()},
    };
    explore_bad_requests<std::uint64_t>("method+instance", sub, [&](Conn& c) { serve_once(c, b, &srv); }, bound,
                                        {IfA::Lookup::Selector, IfA::Scale::Selector, IfA::Unbound::Selector});
  }
  {
    // 32-bit selectors with explicit boundary values
    auto b = nop::BindInterface(If32::Zero::Bind([](int x) { g_log.push_back("Zero(" + std::to_string(x) + ")"); return x + 0; }),
                                If32::S127::Bind([](int x) { g_log.push_back("S127(" + std::to_string(x) + ")"); return x + 127; }),
                                If32::S128::Bind([](int x) { g_log.push_back("S128(" + std::to_string(x) + ")"); return x + 128; }),
                                If32::Max::Bind([](int x) { g_log.push_back("Max(" + std::to_string(x) + ")"); return x - 1; }),
                                If32::Named::Bind([](int x) { g_log.push_back("Named(" + std::to_string(x) + ")"); return x * 2; }));
    std::vector<CallOp> o32;
    for (int x : {0, 200}) {
      o32.push_back({"Zero(" + std::to_string(x) + ")", [x](Conn& c) { return do_invoke<If32::Zero, int>(c, x, eq_plain<int>, x); }, "Zero(" + std::to_string(x) + ")"});
      o32.push_back({"S127(" + std::to_string(x) + ")", [x](Conn& c) { return do_invoke<If32::S127, int>(c, x + 127, eq_plain<int>, x); }, "S127(" + std::to_string(x) + ")"});
      o32.push_back({"S128(" + std::to_string(x) + ")", [x](Conn& c) { return do_invoke<If32::S128, int>(c, x + 128, eq_plain<int>, x); }, "S128(" + std::to_string(x) + ")"});
      o32.push_back({"Max(" + std::to_string(x) + ")", [x](Conn& c) { return do_invoke<If32::Max, int>(c, x - 1, eq_plain<int>, x); }, "Max(" + std::to_string(x) + ")"});
      o32.push_back({"Named(" + std::to_string(x) + ")", [x](Conn& c) { return do_invoke<If32::Named, int>(c, x * 2, eq_plain<int>, x); }, "Named(" + std::to_string(x) + ")"});
    }
    explore_sequences("sel32", o32, b, depth, "");
    std::map<uint64_t, Sch> bound = {{0, args_sch<int>()}, {127, args_sch<int>()}, {128, args_sch<int>()}, {0xffffffffULL, args_sch<int>()},
                                     {If32::Named::Selector, args_sch<int>()}};
    explore_bad_requests<std::uint32_t>("sel32", o32, [&](Conn& c) { serve_once(c, b); }, bound,
                                        // 2^32 + a bound selector and friends arrive as U64: not a valid encoding of a 32-bit selector at all
                                        {65536, 1, 126, 129, 0xfffffffeULL, (1ULL << 32) | 0, (1ULL << 32) | 127, (1ULL << 32) | 128, (7ULL << 32) | 0xffffffffULL,
                                         (1ULL << 63) | (std::uint64_t)If32::Named::Selector, ~0ULL});
  }
  {
    auto b = nop::BindInterface(IfR::Describe::Bind(&h_describe));
    g_serve_r = [&](Conn& c) { serve_once(c, b); };
    explore_reentrant("fnptr", "");
    auto bl = nop::BindInterface(IfR::Describe::Bind([](const std::string& path, int depth) { return describe_body(path, depth, ""); }));
    g_serve_r = [&](Conn& c) { serve_once(c, bl); };
    explore_reentrant("lambda", "");
    SrvR srv;
    auto bm = nop::BindInterface<SrvR*>(IfR::Describe::Bind(&SrvR::OnDescribe));
    g_serve_r = [&](Conn& c) { serve_once(c, bm, &srv); };
    explore_reentrant("method+instance", "#5");
    g_serve_r = nullptr;
  }
  R.add("negative_controls_flagged", 0);
#else
  {
    auto b = make_bindings_pass_lambda();
    Server srv;
    std::vector<CallOp> sub;
    for (auto& o : ops)
      if ((o.name.compare(0, 3, "Sum") == 0 && o.name.compare(0, 6, "SumAll") != 0) || o.name.compare(0, 6, "Length") == 0) sub.push_back(o);
    explore_sequences("lambda+passthrough", sub, b, depth, "#7", &srv);
  }
  {
    auto b = make_bindings_pass_method();
    Server2 srv;
    Ctx ctx{3};
    std::vector<CallOp> sub;
    for (auto& o : ops)
      if (o.name.compare(0, 3, "Sum") == 0 && o.name.compare(0, 6, "SumAll") != 0) sub.push_back(o);
    explore_sequences("method+context", sub, b, depth, "#9/3", &srv, &ctx);
  }
#endif
  R.sample("{\"sequence\":\"Sum(2,40);Length(5B);\",\"check\":\"handler log, return value, both pipes empty after each call\"}");
  R.sample("{\"bad_request\":\"every truncation / byte substitution of a recorded request, unbound selectors\",\"check\":\"status, no handler entry, zero reply bytes\"}");
  R.finish();
  return R.violations ? 1 : 0;
}
