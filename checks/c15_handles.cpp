// C15: handles travel out of band intact; UniqueHandle closes exactly once.
//  part 1 (transport): values with 0..n handles at every nesting position, written through a scripted probe writer
//          (every reference answer from a boundary set, also for empty handles) and read back through a probe reader
//          (identity / offset / failing resolution), compared with the reference codec.
//  part 2 (ownership): explicit-state search over three UniqueHandle<CountingPolicy> slots.
// Compiled twice: without and with -DC15_TABLES (handles inside table entries need BoundedReader/Writer forwarding).
#include <deque>
#include <map>
#include <set>

#include "mutate.h"
#include "ops.h"

using namespace vf;
using namespace vt;
static Report R;
static Args A;

using H1 = nop::Handle<TestHandlePolicy<1>>;
using H7 = nop::Handle<TestHandlePolicy<300>>;  // type tag in the U16 class
using HN = nop::Handle<NarrowTagHandlePolicy<std::uint16_t, 0x0102>>;  // 16-bit tag type: a wider tag is not even a valid encoding
using HB = nop::Handle<NarrowTagHandlePolicy<std::uint8_t, 0x21>>;

static std::string shape_of(const Sch& s) {
  static const char* n[] = {"Bool", "UInt", "SInt", "F32", "F64", "Str", "BinVec", "BinArr", "BinLB", "AryVec", "AryFix",
                            "AryLB", "Map", "Stu", "Opt", "Res", "Var", "Hnd", "Tab"};
  return n[(int)s.k];
}
static void collect_handles(const Sch& s, const Val& v, std::vector<int64_t>* out) {
  switch (s.k) {
    case K::Hnd: out->push_back((int64_t)v.u); break;
    case K::AryVec: case K::AryLB: for (auto& k : v.kids) collect_handles(s.kids[0], k, out); break;
    case K::AryFix: case K::Stu: for (size_t i = 0; i < s.kids.size(); i++) collect_handles(s.kids[i], v.kids[i], out); break;
    case K::Map: for (size_t i = 0; i + 1 < v.kids.size(); i += 2) { collect_handles(s.kids[0], v.kids[i], out); collect_handles(s.kids[1], v.kids[i + 1], out); } break;
    case K::Opt: if (v.u) collect_handles(s.kids[0], v.kids[0], out); break;
    case K::Res: if (v.u) collect_handles(s.kids[1], v.kids[0], out); break;
    case K::Var: if ((int64_t)v.u >= 0) collect_handles(s.kids[(size_t)v.u], v.kids[0], out); break;
    case K::Tab: for (size_t i = 0; i < s.kids.size(); i++) if (!s.deleted[i] && v.kids[i].u) collect_handles(s.kids[i], v.kids[i].kids[0], out); break;
    default: break;
  }
}
// replace every handle value by f(old)
static void map_handles(const Sch& s, Val& v, const std::function<int64_t(int64_t)>& f) {
  switch (s.k) {
    case K::Hnd: v.u = (uint64_t)f((int64_t)v.u); break;
    case K::AryVec: case K::AryLB: for (auto& k : v.kids) map_handles(s.kids[0], k, f); break;
    case K::AryFix: case K::Stu: for (size_t i = 0; i < s.kids.size(); i++) map_handles(s.kids[i], v.kids[i], f); break;
    case K::Map: for (size_t i = 0; i + 1 < v.kids.size(); i += 2) { map_handles(s.kids[0], v.kids[i], f); map_handles(s.kids[1], v.kids[i + 1], f); } break;
    case K::Opt: if (v.u) map_handles(s.kids[0], v.kids[0], f); break;
    case K::Res: if (v.u) map_handles(s.kids[1], v.kids[0], f); break;
    case K::Var: if ((int64_t)v.u >= 0) map_handles(s.kids[(size_t)v.u], v.kids[0], f); break;
    case K::Tab: for (size_t i = 0; i < s.kids.size(); i++) if (!s.deleted[i] && v.kids[i].u) map_handles(s.kids[i], v.kids[i].kids[0], f); break;
    default: break;
  }
}

static const int64_t kRefs[] = {-1, 0, 1, 127, 128, -64, -65, 32767, 32768, 2147483647LL, 2147483648LL, 0x7fffffffffffffffLL, -2, INT64_MIN};

static void check_transport(const TypeOps& t) {
  DomainCfg cfg;
  cfg.big_strings = false;
  cfg.cap = A.thorough() ? 400 : 120;
  std::vector<Val> dom = domain(t.sch, cfg, 0);
  for (size_t i = 0; i < dom.size(); i++) {
    Obj src(t, dom[i]);
    Val w = src.val();
    std::vector<int64_t> hv;
    collect_handles(t.sch, w, &hv);
    // reference scripts: the natural one, and every boundary reference at every handle position (others natural)
    std::vector<std::vector<int64_t>> scripts;
    scripts.push_back({});
    for (size_t p = 0; p < hv.size(); p++)
      for (int64_t r : kRefs) {
        std::vector<int64_t> s;
        for (size_t q = 0; q < hv.size(); q++) s.push_back(q == p ? r : (hv[q] < 0 ? -1 : (int64_t)q));
        scripts.push_back(s);
      }
    for (size_t si = 0; si < scripts.size(); si++) {
      std::string cid = "C15|T|" + t.name + "|v" + std::to_string(i) + "|script" + std::to_string(si);
      if (!R.want(cid)) continue;
      const std::vector<int64_t>& script = scripts[si];
      ProbeWriter pw;
      pw.ref_script = script;
      int e = t.probe_write(src.p, pw);
      R.counters["evaluations"]++;
      if (!hv.empty()) R.nontrivial(cid);
      auto det = [&] { return "{\"type\":" + jstr(t.name) + ",\"value\":" + vjson(t.sch, w) + ",\"handles\":" + std::to_string(hv.size()) + "}"; };
      if (e) { R.viol("C15|write-failed|" + shape_of(t.sch), cid, std::string("Write failed with ") + ename(e), det()); continue; }
      // 1. each handle pushed exactly once, in encounter order
      if (pw.handles != hv) {
        R.viol("C15|push-order|" + shape_of(t.sch), cid, "PushHandle calls do not match the handles of the value in encounter order (" +
                   std::to_string(pw.handles.size()) + " calls, " + std::to_string(hv.size()) + " handles)", det());
        continue;
      }
      // 2. bytes: type tag then exactly the reference the writer returned
      size_t k = 0;
      Enc enc;
      enc.href = [&](int64_t h) { int64_t r = k < script.size() ? script[k] : (h < 0 ? -1 : (int64_t)k); k++; return r; };
      refenc(t.sch, w, enc);
      if (pw.out != enc.bytes) {
        R.viol("C15|bytes-differ|" + shape_of(t.sch), cid, "bytes differ from the documented handle layout (type tag, then the reference returned by the writer)",
               "{\"type\":" + jstr(t.name) + ",\"got\":" + jstr(hex(pw.out)) + ",\"want\":" + jstr(hex(enc.bytes)) + "}");
        continue;
      }
      // GetSize never under-estimates, also when the reference needs the I64 class
      if (t.getsize(src.p) < pw.out.size())
        R.viol("C15|getsize-underestimates|" + shape_of(t.sch), cid, "GetSize " + std::to_string(t.getsize(src.p)) + " < " + std::to_string(pw.out.size()) + " bytes written", det());
      // 3. read back: GetHandle called with the encoded references, in order; value = resolved handles
      for (int64_t off : {(int64_t)0, (int64_t)1000}) {
        Obj dst(t);
        ProbeReader pr(pw.out.data(), pw.out.size());
        pr.resolve_offset = off;
        int re = t.probe_read(dst.p, pr);
        R.counters["evaluations"]++;
        if (re) { R.viol("C15|read-failed|" + shape_of(t.sch), cid, std::string("Read failed with ") + ename(re), det()); break; }
        std::vector<int64_t> want_refs;
        {
          size_t q = 0;
          for (int64_t h : hv) { want_refs.push_back(q < script.size() ? script[q] : (h < 0 ? -1 : (int64_t)q)); q++; }
        }
        if (pr.refs != want_refs) { R.viol("C15|resolve-order|" + shape_of(t.sch), cid, "GetHandle was not called once per handle with the encoded reference, in order", det()); break; }
        Val expect = w;
        {
          size_t q = 0;
          map_handles(t.sch, expect, [&](int64_t) { int64_t r = want_refs[q++]; return r < 0 ? (int64_t)-1 : r + off; });
        }
        Val got = dst.val();
        Val gn = got, en = expect;
        normalize(t.sch, gn);
        normalize(t.sch, en);
        if (gn != en) { R.viol("C15|roundtrip-differs|" + shape_of(t.sch), cid, "read-back value " + vjson(t.sch, got) + " != expected " + vjson(t.sch, expect), det()); break; }
        if (pr.pos != pw.out.size()) { R.viol("C15|consumed|" + shape_of(t.sch), cid, "reader not at the end after the value", det()); break; }
      }
      // 4. a resolution error is returned unchanged and stops the read
      if (si == 0)
        for (size_t p = 0; p < hv.size(); p++)
          for (int err : {(int)nop::ErrorStatus::InvalidHandleReference, (int)nop::ErrorStatus::InvalidHandleValue, (int)nop::ErrorStatus::IOError, (int)nop::ErrorStatus::DebugError}) {
            // make reference p unique so that only this one fails
            ProbeWriter pw2;
            for (size_t q = 0; q < hv.size(); q++) pw2.ref_script.push_back(q == p ? 4242 : (hv[q] < 0 ? -1 : (int64_t)q));
            t.probe_write(src.p, pw2);
            Obj dst(t);
            ProbeReader pr(pw2.out.data(), pw2.out.size());
            pr.resolve_fail_ref = 4242;
            pr.resolve_fail_enabled = true;
            pr.resolve_error = err;
            int re = t.probe_read(dst.p, pr);
            R.counters["evaluations"]++;
            if (re != err)
              R.viol("C15|resolve-error-not-propagated|" + shape_of(t.sch), cid + "|fail" + std::to_string(p),
                     std::string("handle resolution failed with ") + ename(err) + " but Read returned " + ename(re), det());
            else if (pr.refs.size() != p + 1)
              R.viol("C15|resolve-continued-after-error|" + shape_of(t.sch), cid + "|fail" + std::to_string(p), "further handles were resolved after a resolution error", det());
          }
      // 5. corrupted type tags / references (single local defects)
      if (si == 0 && !hv.empty()) {
        Enc fe;
        fe.want_fields = true;
        refenc(t.sch, w, fe);
        for (auto& f : fe.fields) {
          if (f.role != Role::HandleType) continue;
          // the tag field's own width (bytes) decides between "another handle type" and "not an encoding of the tag type at all":
          // tags equal to the expected one modulo 2^8 / 2^16 / 2^32 are among the candidates
          const int tagw = f.width ? f.width : 8;
          for (uint64_t nv : std::vector<uint64_t>{f.value + 1, f.value + 256, (uint64_t)0xffffffffffULL, f.value == 0 ? (uint64_t)1 : (uint64_t)0, f.value + (uint64_t)(1ULL << 8),
                              f.value + (uint64_t)(1ULL << 16), f.value + (uint64_t)(1ULL << 32), f.value + (uint64_t)(0xdeadbeefULL << 32)}) {
            if (nv == f.value) continue;
            const int want_err = (tagw < 8 && (nv >> (8 * tagw)) != 0) ? (int)nop::ErrorStatus::UnexpectedEncodingType : (int)nop::ErrorStatus::UnexpectedHandleType;
            std::vector<uint8_t> nb = splice(fe.bytes, f.off, f.len, min_uint(nv));
            Obj dst(t);
            ProbeReader pr(nb.data(), nb.size());
            int re = t.probe_read(dst.p, pr);
            R.counters["evaluations"]++;
            if (re != want_err)
              R.viol("C15|handle-type-not-validated|" + shape_of(t.sch), cid + "|tag" + std::to_string(f.off) + ":" + std::to_string(nv),
                     std::string("handle type tag changed to ") + std::to_string(nv) + ": Read returned " + ename(re) + ", expected " + ename(want_err),
                     "{\"type\":" + jstr(t.name) + ",\"input\":" + jstr(hex(nb)) + "}");
            else if (!pr.refs.empty() && pr.refs.size() > 0 && pr.log.back().op == 'G')
              R.viol("C15|resolved-despite-wrong-type|" + shape_of(t.sch), cid, "a handle with a mismatched type tag was resolved", det());
          }
          // signed class for the tag must be rejected as a wrong encoding type
          {
            std::vector<uint8_t> rep;
            enc_int_class(rep, 0x84, f.value & 0x7f);
            std::vector<uint8_t> nb = splice(fe.bytes, f.off, f.len, rep);
            Obj dst(t);
            ProbeReader pr(nb.data(), nb.size());
            int re = t.probe_read(dst.p, pr);
            R.counters["evaluations"]++;
            if (re == 0) R.viol("C15|handle-type-class|" + shape_of(t.sch), cid, "type tag in a signed integer class was accepted", det());
          }
        }
      }
    }
    if (i == 1) R.sample("{\"type\":" + jstr(t.name) + ",\"value\":" + vjson(t.sch, w) + ",\"scripts\":" + std::to_string(scripts.size()) + "}");
  }
}

// ================================================================ ownership
struct CloseLog {
  std::map<int, int> closes;  // resource -> times closed
  std::vector<std::string> events;
};
static CloseLog g_log;
struct CountingPolicy {
  using Type = int;
  static constexpr int Default() { return -1; }
  static bool IsValid(const int& v) { return v >= 0; }
  static void Close(int* v) {
    if (*v >= 0) { g_log.closes[*v]++; }
    *v = -1;
  }
  static int Release(int* v) { int t = *v; *v = -1; return t; }
  static constexpr std::uint64_t HandleType() { return 9; }
};
using UH = nop::UniqueHandle<CountingPolicy>;

struct OOp { int code, x, y; };
enum { ADOPT, MOVE_ASSIGN, MOVE_CONSTRUCT, RELEASE, CLOSE, RESET, OBSERVE };
static const char* kOO[] = {"adopt", "move=", "rebuild(move)", "release", "close", "rebuild()", "observe"};
static std::string ooname(const OOp& o) {
  std::string s = std::string("h") + std::to_string(o.x) + "." + kOO[o.code];
  if (o.code == MOVE_ASSIGN || o.code == MOVE_CONSTRUCT) s += "(h" + std::to_string(o.y) + ")";
  return s;
}
struct OModelH {
  int slot[3] = {-1, -1, -1};      // resource owned by slot, -1 none
  std::map<int, int> expect_closed;  // resource -> expected number of closes so far
  std::set<int> released;
  int next = 0;
};
struct OWorldH {
  UH* h[3];
  OWorldH() { for (auto& p : h) p = new UH(); }
  ~OWorldH() { for (auto& p : h) delete p; }
};
static void oh_real(OWorldH& w, const OOp& o, int fresh) {
  switch (o.code) {
    case ADOPT: delete w.h[o.x]; w.h[o.x] = new UH(fresh); break;
    case MOVE_ASSIGN: *w.h[o.x] = std::move(*w.h[o.y]); break;
    case MOVE_CONSTRUCT: { UH* n = new UH(std::move(*w.h[o.y])); delete w.h[o.x]; w.h[o.x] = n; break; }
    case RELEASE: (void)w.h[o.x]->release(); break;
    case CLOSE: w.h[o.x]->close(); break;
    case RESET: delete w.h[o.x]; w.h[o.x] = new UH(); break;
    default: break;
  }
}
static void oh_model(OModelH& m, const OOp& o) {
  auto close_slot = [&](int x) { if (m.slot[x] >= 0) { m.expect_closed[m.slot[x]]++; m.slot[x] = -1; } };
  switch (o.code) {
    case ADOPT: close_slot(o.x); m.slot[o.x] = m.next++; break;
    case MOVE_ASSIGN:
      if (o.x != o.y) { close_slot(o.x); m.slot[o.x] = m.slot[o.y]; m.slot[o.y] = -1; }
      break;
    case MOVE_CONSTRUCT:
      if (o.x != o.y) { int r = m.slot[o.y]; m.slot[o.y] = -1; close_slot(o.x); m.slot[o.x] = r; }
      else { int r = m.slot[o.y]; m.slot[o.y] = -1; m.slot[o.x] = r; }  // new object takes it, the old (now empty) one is destroyed
      break;
    case RELEASE: if (m.slot[o.x] >= 0) { m.released.insert(m.slot[o.x]); m.slot[o.x] = -1; } break;
    case CLOSE: case RESET: close_slot(o.x); break;
    default: break;
  }
}
static std::string oh_compare(OWorldH& w, const OModelH& m) {
  for (int x = 0; x < 3; x++) {
    if (w.h[x]->get() != m.slot[x]) return "h" + std::to_string(x) + " holds " + std::to_string(w.h[x]->get()) + ", model " + std::to_string(m.slot[x]);
    if (static_cast<bool>(*w.h[x]) != (m.slot[x] >= 0)) return "operator bool disagrees";
  }
  for (int r = 0; r < m.next; r++) {
    int got = g_log.closes.count(r) ? g_log.closes[r] : 0;
    int want = m.expect_closed.count(r) ? m.expect_closed.at(r) : 0;
    if (got != want) return "resource " + std::to_string(r) + " closed " + std::to_string(got) + " times, expected " + std::to_string(want) + (m.released.count(r) ? " (it was released)" : "");
  }
  return "";
}
static void check_ownership() {
  std::vector<OOp> ops;
  for (int x = 0; x < 3; x++) {
    ops.push_back({ADOPT, x, 0});
    for (int y = 0; y < 3; y++) { ops.push_back({MOVE_ASSIGN, x, y}); ops.push_back({MOVE_CONSTRUCT, x, y}); }
    ops.push_back({RELEASE, x, 0});
    ops.push_back({CLOSE, x, 0});
    ops.push_back({RESET, x, 0});
  }
  // state = which slots own something + previous operation (pairs of consecutive operations are all explored)
  std::map<std::string, std::vector<int>> seen;
  std::deque<std::vector<int>> frontier;
  seen["---|"] = {};
  frontier.push_back({});
  const size_t max_depth = A.thorough() ? 6 : 5;
  while (!frontier.empty()) {
    std::vector<int> h = frontier.front();
    frontier.pop_front();
    for (size_t oi = 0; oi < ops.size(); oi++) {
      g_log = CloseLog();
      OModelH m;
      std::string hs, why, cid;
      bool report;
      {
        OWorldH w;
        for (int pi : h) { oh_real(w, ops[pi], m.next); oh_model(m, ops[pi]); hs += ooname(ops[pi]) + ";"; }
        cid = "C15|O|" + hs + ooname(ops[oi]);
        report = R.want(cid);
        oh_real(w, ops[oi], m.next);
        oh_model(m, ops[oi]);
        why = oh_compare(w, m);
        if (report) { R.counters["transitions"]++; R.counters["evaluations"]++; }
      }
      // teardown: every resource still owned is closed exactly once, released ones never
      if (why.empty()) {
        OModelH end = m;
        for (int x = 0; x < 3; x++) if (end.slot[x] >= 0) { end.expect_closed[end.slot[x]]++; end.slot[x] = -1; }
        for (int r = 0; r < end.next; r++) {
          int got = g_log.closes.count(r) ? g_log.closes[r] : 0;
          int want = end.expect_closed.count(r) ? end.expect_closed[r] : 0;
          if (got != want) { why = "after destruction resource " + std::to_string(r) + " was closed " + std::to_string(got) + " times, expected " + std::to_string(want); break; }
          if (want != (end.released.count(r) ? 0 : 1)) { why = "model self-check: resource " + std::to_string(r); break; }
        }
      }
      if (!why.empty()) {
        if (report) R.viol(std::string("C15|ownership|") + kOO[ops[oi].code], cid, why, "{\"history\":" + jstr(hs) + ",\"op\":" + jstr(ooname(ops[oi])) + "}");
        continue;
      }
      std::string k;
      for (int x = 0; x < 3; x++) k += m.slot[x] >= 0 ? 'R' : '-';
      k += "|" + ooname(ops[oi]);
      if (!seen.count(k) && h.size() + 1 < max_depth) {
        std::vector<int> nh = h;
        nh.push_back((int)oi);
        seen[k] = nh;
        frontier.push_back(nh);
      }
    }
  }
  R.counters["states"] += seen.size();
  R.distinct_direct += seen.size();
  int n = 0;
  for (auto& kv : seen) {
    if (kv.second.size() < 3) continue;
    std::string hs;
    for (int pi : kv.second) hs += ooname(ops[pi]) + ";";
    R.sample("{\"ownership_state\":" + jstr(kv.first) + ",\"history\":" + jstr(hs) + "}");
    if (++n >= 2) break;
  }
}

// ================================================================ C10 over handle-bearing types (--c10)
// The codec lab's reader/writer rigs have no out-of-band channel, so its fault enumeration never reaches PushHandle / GetHandle.
// Same oracle here: every primitive call the probe writer / reader sees for a value - handle transfers included, for valid and
// for EMPTY handles - fails in turn with every error code; the operation must return that code and make no further call.
static std::string calls_str(const std::vector<Call>& log) { std::string o; for (auto& c : log) o += c.op; return o; }
static void check_io_faults(const TypeOps& t) {
  DomainCfg cfg;
  cfg.big_strings = false;
  cfg.cap = A.thorough() ? 200 : 60;
  std::vector<Val> dom = domain(t.sch, cfg, 0);
  std::vector<int> errs;
  if (A.thorough()) for (int e = 1; e <= 18; e++) errs.push_back(e);
  else errs = {1, 4, 12, 13, 14, 16, 18};
  for (size_t i = 0; i < dom.size(); i++) {
    Obj src(t, dom[i]);
    Val w = src.val();
    ProbeWriter clean;
    if (t.probe_write(src.p, clean)) continue;  // reported by the transport part
    auto det = [&] { return "{\"type\":" + jstr(t.name) + ",\"value\":" + vjson(t.sch, w) + ",\"calls\":" + jstr(calls_str(clean.log)) + "}"; };
    for (size_t k = 0; k < clean.log.size(); k++)
      for (int e : errs) {
        std::string cid = "C10|H|" + t.name + "|v" + std::to_string(i) + "|W|call" + std::to_string(k) + "|err" + std::to_string(e);
        if (!R.want(cid)) continue;
        ProbeWriter pw;
        pw.fail_at = (long)k;
        pw.fail_with = e;
        int got = t.probe_write(src.p, pw);
        R.counters["evaluations"]++;
        R.counters["transitions"]++;
        if (clean.log[k].op == 'H') R.nontrivial(cid);
        const std::string opn(1, clean.log[k].op);
        if (got != e)
          R.viol("C10|write|" + std::string(got ? "wrong-error" : "success-after-failure") + "|op" + opn + "|" + shape_of(t.sch) + "+Hnd", cid,
                 "writer call #" + std::to_string(k) + " (" + opn + ") failed with " + ename(e) + " but Write returned " + ename(got), det());
        else if (pw.log.size() != k + 1)
          R.viol("C10|write|calls-after-failure|op" + opn + "|" + shape_of(t.sch) + "+Hnd", cid,
                 std::to_string(pw.log.size() - k - 1) + " further writer calls after call #" + std::to_string(k) + " failed", det());
        else if (k == 0 && !pw.out.empty())
          R.viol("C10|write|bytes-after-failed-prepare|" + shape_of(t.sch) + "+Hnd", cid, "Prepare failed but bytes were written", det());
        else R.outcome("propagated");
      }
    Obj d0(t);
    ProbeReader rclean(clean.out.data(), clean.out.size());
    if (t.probe_read(d0.p, rclean)) continue;
    for (size_t k = 0; k < rclean.log.size(); k++)
      for (int e : errs) {
        std::string cid = "C10|H|" + t.name + "|v" + std::to_string(i) + "|R|call" + std::to_string(k) + "|err" + std::to_string(e);
        if (!R.want(cid)) continue;
        Obj dst(t);
        ProbeReader pr(clean.out.data(), clean.out.size());
        pr.fail_at = (long)k;
        pr.fail_with = e;
        int got = t.probe_read(dst.p, pr);
        R.counters["evaluations"]++;
        R.counters["transitions"]++;
        if (rclean.log[k].op == 'G') R.nontrivial(cid);
        const std::string opn(1, rclean.log[k].op);
        if (got != e)
          R.viol("C10|read|" + std::string(got ? "wrong-error" : "success-after-failure") + "|op" + opn + "|" + shape_of(t.sch) + "+Hnd", cid,
                 "reader call #" + std::to_string(k) + " (" + opn + ") failed with " + ename(e) + " but Read returned " + ename(got), det());
        else if (pr.log.size() != k + 1)
          R.viol("C10|read|calls-after-failure|op" + opn + "|" + shape_of(t.sch) + "+Hnd", cid,
                 std::to_string(pr.log.size() - k - 1) + " further reader calls after call #" + std::to_string(k) + " failed", det());
        else R.outcome("propagated");
      }
    R.counters["states"]++;
  }
}

// ================================================================ C03 / C06 over handle-bearing types (--c03, --c06)
// The codec lab's writer rigs have no handle channel, so its format and capacity checks never see a Handle - the one type whose
// GetSize over-estimates and whose table entries are therefore padded. Same oracles here through the probe writer.
static void check_format_and_size(const TypeOps& t, bool c06) {
  DomainCfg cfg;
  cfg.big_strings = false;
  cfg.cap = A.thorough() ? 400 : 120;
  std::vector<Val> dom = domain(t.sch, cfg, 0);
  const std::string P = c06 ? "C06" : "C03";
  for (size_t i = 0; i < dom.size(); i++) {
    Obj src(t, dom[i]);
    Val w = src.val();
    std::string cid = P + "|H|" + t.name + "|v" + std::to_string(i);
    if (!R.want(cid)) continue;
    auto det = [&] { return "{\"type\":" + jstr(t.name) + ",\"value\":" + vjson(t.sch, w) + "}"; };
    ProbeWriter pw, pw2;
    int e = t.probe_write(src.p, pw);
    t.probe_write(src.p, pw2);
    R.counters["evaluations"]++;
    R.counters["transitions"]++;
    R.counters["states"]++;
    if (t.sch.has_handle()) R.nontrivial(cid);
    if (e) { R.viol(P + "|write-failed|" + shape_of(t.sch) + "+Hnd", cid, std::string("Write failed with ") + ename(e), det()); continue; }
    size_t k = 0;
    Enc enc;
    enc.href = [&](int64_t h) { int64_t r = h < 0 ? -1 : (int64_t)k; k++; return r; };  // the probe's default answers
    refenc(t.sch, w, enc);
    if (!c06) {
      if (pw.out != enc.bytes)
        R.viol("C03|bytes-differ|" + shape_of(t.sch) + "+Hnd", cid, "encoder output differs from the documented layout (type tag, reference, entry sizes and padding)",
               "{\"type\":" + jstr(t.name) + ",\"got\":" + jstr(hex(pw.out)) + ",\"want\":" + jstr(hex(enc.bytes)) + "}");
      else if (pw2.out != pw.out) R.viol("C03|not-deterministic|" + shape_of(t.sch) + "+Hnd", cid, "writing the same object twice produced different bytes", det());
      else R.outcome("bytes-equal-reference");
      continue;
    }
    // C06: GetSize is an upper bound; inside a table the declared size of each entry equals the bytes that follow it (the
    // reference layout has exactly that); a sink of fewer bytes refuses with WriteLimitReached and never holds more than its capacity
    const size_t gs = t.getsize(src.p);
    if (gs < pw.out.size()) { R.viol("C06|getsize-underestimates|" + shape_of(t.sch) + "+Hnd", cid, "GetSize " + std::to_string(gs) + " < " + std::to_string(pw.out.size()) + " bytes written", det()); continue; }
    if (pw.out != enc.bytes) {
      R.viol("C06|entry-size-vs-bytes|" + shape_of(t.sch) + "+Hnd", cid, "the bytes written differ from the documented layout (declared entry sizes vs. value plus padding)",
             "{\"type\":" + jstr(t.name) + ",\"got\":" + jstr(hex(pw.out)) + ",\"want\":" + jstr(hex(enc.bytes)) + "}");
      continue;
    }
    for (size_t cap = 0; cap <= gs + 1; cap++) {
      ProbeWriter pc;
      pc.capacity = cap;
      int ec = t.probe_write(src.p, pc);
      R.counters["evaluations"]++;
      std::string why;
      if (cap >= gs && ec) why = std::string("Write into a sink with GetSize bytes of room failed with ") + ename(ec);
      else if (cap < pw.out.size() && !ec) why = "Write into a sink smaller than the encoding succeeded";
      else if (ec && ec != (int)nop::ErrorStatus::WriteLimitReached) why = std::string("refused with ") + ename(ec) + " instead of WriteLimitReached";
      else if (pc.out.size() > cap) why = "more bytes than the capacity were written";
      else if (!ec && pc.out != pw.out) why = "bytes differ between capacities";
      if (!why.empty()) { R.viol("C06|capacity|" + shape_of(t.sch) + "+Hnd", cid + "|cap" + std::to_string(cap), why, det()); break; }
    }
    R.outcome("size-and-capacity-ok");
  }
}

int main(int argc, char** argv) {
  A = Args::parse(argc, argv);
  R.only = A.only;
  std::vector<TypeOps> types;
#ifndef C15_TABLES
  types.push_back(make_ops<H1>());
  types.push_back(make_ops<H7>());
  types.push_back(make_ops<HN>());
  types.push_back(make_ops<S2<HB, HN>>());
  types.push_back(make_ops<std::vector<HN>>());
  types.push_back(make_ops<S2<H1, int32_t>>());
  types.push_back(make_ops<S3<int32_t, H1, H7>>());
  types.push_back(make_ops<std::vector<H1>>());
  types.push_back(make_ops<std::array<H7, 2>>());
  types.push_back(make_ops<nop::Optional<H1>>());
  types.push_back(make_ops<nop::Variant<int32_t, H1>>());
  types.push_back(make_ops<std::map<int32_t, H1>>());
  types.push_back(make_ops<std::pair<H1, std::string>>());
  types.push_back(make_ops<std::tuple<H1, H1, H1>>());
  types.push_back(make_ops<nop::Result<Err, H7>>());
  types.push_back(make_ops<S2<std::vector<S2<H1, std::string>>, nop::Optional<H7>>>());
#else
  types.push_back(make_ops<T1<H1>>());
  types.push_back(make_ops<T2<H1, std::string>>());
  types.push_back(make_ops<T2<S2<H1, H7>, std::vector<H1>>>());
  types.push_back(make_ops<T3<nop::Optional<H1>, int32_t>>());
  types.push_back(make_ops<S2<T1<H7>, H1>>());
  types.push_back(make_ops<T1<T1<H1>>>());
  types.push_back(make_ops<std::vector<T2<H1, H1>>>());
  // a nested table whose padded (handle) entry is followed by further inner entries
  types.push_back(make_ops<T1<T2<H1, std::string>>>());
  types.push_back(make_ops<T2<T2<H1, H1>, std::string>>());
  types.push_back(make_ops<T1<std::vector<T2<H7, std::string>>>>());
#endif
  for (auto& r : A.rest)
    if (r == "--c03" || r == "--c06") {
      for (auto& t : types) check_format_and_size(t, r == "--c06");
      R.sample("{\"mode\":\"format / size oracles over handle-bearing types through the probe writer\"}");
      R.finish();
      return R.violations ? 1 : 0;
    }
  for (auto& r : A.rest)
    if (r == "--c10") {
      for (auto& t : types) check_io_faults(t);
      R.sample("{\"mode\":\"C10 over handle-bearing types: every probe writer/reader call incl. PushHandle/GetHandle fails in turn\"}");
      R.finish();
      return R.violations ? 1 : 0;
    }
  for (auto& t : types) check_transport(t);
#ifndef C15_TABLES
  check_ownership();
  // negative control for the ownership oracle: a close that is not logged must be noticed
  {
    g_log = CloseLog();
    OModelH m;
    OWorldH w;
    oh_real(w, {ADOPT, 0, 0}, m.next);
    oh_model(m, {ADOPT, 0, 0});
    oh_model(m, {CLOSE, 0, 0});  // model closes, real does not
    if (oh_compare(w, m).empty()) { printf("{\"t\":\"broken\",\"msg\":\"ownership control not flagged\"}\n"); return 2; }
    R.add("negative_controls_flagged");
  }
#endif
  R.finish();
  return R.violations ? 1 : 0;
}
