// table-lab: C07 (tables stay readable across definition versions), C08 (table framing is validated) and the
// cross-version part of C05 (truncation inside skipped entries / padding).
// The version graph is enumerated by gen/tables.py (explicit-state search over schema-evolution steps); every
// version is a C++ type. This binary instantiates writers for all versions and readers for the versions of its
// shard, then explores all (writer version, reader version, value assignment[, mutation | cut]) combinations.
#include <array>
#include <limits>
#include <map>
#include <set>

#include "mutate.h"
#include "ops.h"

#ifndef SHARD
#define SHARD 0
#endif
#ifndef NSHARDS
#define NSHARDS 1
#endif
#ifndef POOLSIZE
#define POOLSIZE 3
#endif

using namespace vf;
static Report R;
static Args A;

namespace tl {
// ---------------------------------------------------------------- version templates
template <class E0>
struct TV1 {
  E0 e0;
  NOP_TABLE_NS("EvoTable", TV1, e0);
  template <class F> void each(F&& f) { f(e0); }
  template <class F> void each(F&& f) const { f(e0); }
};
template <class E0, class E1>
struct TV2 {
  E0 e0; E1 e1;
  NOP_TABLE_NS("EvoTable", TV2, e0, e1);
  template <class F> void each(F&& f) { f(e0); f(e1); }
  template <class F> void each(F&& f) const { f(e0); f(e1); }
};
template <class E0, class E1, class E2>
struct TV3 {
  E0 e0; E1 e1; E2 e2;
  NOP_TABLE_NS("EvoTable", TV3, e0, e1, e2);
  template <class F> void each(F&& f) { f(e0); f(e1); f(e2); }
  template <class F> void each(F&& f) const { f(e0); f(e1); f(e2); }
};
template <class E0, class E1, class E2, class E3>
struct TV4 {
  E0 e0; E1 e1; E2 e2; E3 e3;
  NOP_TABLE_NS("EvoTable", TV4, e0, e1, e2, e3);
  template <class F> void each(F&& f) { f(e0); f(e1); f(e2); f(e3); }
  template <class F> void each(F&& f) const { f(e0); f(e1); f(e2); f(e3); }
};
}  // namespace tl

#if POOLSIZE == 4
#include "tables_gen_p4.h"
#else
#include "tables_gen_p3.h"
#endif

namespace tl {

// ---------------------------------------------------------------- pool values (canonical Val usable by either twin)
static Val pool_value(uint64_t id, int which) {
  Val v;
  switch (id) {
    // value 1 is the empty string: the entry's value ends with a zero-length block exactly at the entry's bound;
    // value 2 has 134 bytes: length and entry size in the U8 class
    case 0: v.raw = which == 1 ? "" : std::string(130, 'q') + "tail"; break;
    case 128: {
      int32_t e[2] = {1, 2};
      if (which == 2) { e[0] = -70000; e[1] = 0x01020304; }
      v.raw.assign(reinterpret_cast<const char*>(e), 8);
      break;
    }
    case 0x100000001ULL: v.u = which == 1 ? 5 : ((1ULL << 40) + 3); break;
    default: {  // 65536: structure {uint8, string}
      v.kids.resize(2);
      v.kids[0].u = which == 1 ? 7 : 200;
      v.kids[1].raw = which == 1 ? "x" : "yy";
      break;
    }
  }
  return v;
}

template <class E>
struct EntryInfo;
template <class T, std::uint64_t Id>
struct EntryInfo<nop::Entry<T, Id, nop::ActiveEntry>> {
  using Type = T;
  static constexpr bool active = true;
  static constexpr uint64_t id = Id;
};
template <class T, std::uint64_t Id>
struct EntryInfo<nop::Entry<T, Id, nop::DeletedEntry>> {
  using Type = T;
  static constexpr bool active = false;
  static constexpr uint64_t id = Id;
};

struct EntryDesc { uint64_t id; bool active; Sch sch; };
struct Obs { bool present = false; Val v; };

template <class E>
static void set_entry(E& e, int which, std::true_type) {
  using T = typename EntryInfo<E>::Type;
  if (which == 0) { e.clear(); return; }
  T t{};
  Br<T>::from(pool_value(EntryInfo<E>::id, which), t);
  e = std::move(t);
}
template <class E>
static void set_entry(E&, int, std::false_type) {}
template <class E>
static void get_entry(const E& e, Obs* o, std::true_type) {
  using T = typename EntryInfo<E>::Type;
  o->present = !e.empty();
  if (o->present) Br<T>::to(e.get(), o->v);
}
template <class E>
static void get_entry(const E&, Obs* o, std::false_type) { o->present = false; }

template <class TV>
static std::vector<EntryDesc> describe() {
  std::vector<EntryDesc> d;
  TV t;
  t.each([&](auto& e) {
    using E = std::decay_t<decltype(e)>;
    d.push_back({EntryInfo<E>::id, EntryInfo<E>::active, Br<typename EntryInfo<E>::Type>::sch()});
  });
  return d;
}
template <class TV>
static void fill(TV& t, const std::vector<int>& assign) {
  size_t i = 0;
  t.each([&](auto& e) {
    using E = std::decay_t<decltype(e)>;
    set_entry(e, assign[i++], std::integral_constant<bool, EntryInfo<E>::active>{});
  });
}
template <class TV>
static std::vector<Obs> observe(const TV& t) {
  std::vector<Obs> o;
  t.each([&](const auto& e) {
    using E = std::decay_t<decltype(e)>;
    Obs x;
    get_entry(e, &x, std::integral_constant<bool, EntryInfo<E>::active>{});
    o.push_back(std::move(x));
  });
  return o;
}

// IN_LAST_ENTRY (C05 only): the table under test is the LAST thing of the enclosing table, so that a cut inside its trailing
// skipped entry / padding is not followed by anything else that would fail
enum Ctx { BARE, IN_STRUCT, IN_VECTOR, IN_ENTRY, NCTX, IN_LAST_ENTRY = NCTX };
static const char* kCtx[] = {"bare", "struct-member", "vector-element", "outer-table-entry", "outer-table-last-entry"};
static const int32_t kSentinel = 0x51525354;

struct WriteOut { int err = 0; std::vector<uint8_t> bytes; };
struct ReadOut {
  int err = 0; std::vector<Obs> obs; std::vector<Obs> obs2; bool sentinel_ok = false; bool at_end = false; bool ctx_ok = true;
  bool outer_a_present = false, outer_b_present = false; std::string outer_b;  // IN_ENTRY: the enclosing table's entries
};

// the table under test in a wrapping context, followed by a sentinel value on the same stream
template <class TV, class W>
static St write_wrapped(W& w, const TV& t, int ctx, std::true_type) {
  switch (ctx) {
    case BARE: return w.write(t);
    case IN_STRUCT: { vt::S2<TV, int32_t> s{t, 0x1234}; return w.write(s); }
    case IN_VECTOR: { std::vector<TV> v{t, t}; return w.write(v); }
    case IN_LAST_ENTRY: { vt::T2<std::string, TV> o; o.a = std::string("head"); o.b = t; return w.write(o); }
    default: { vt::T2<TV, std::string> o; o.a = t; o.b = std::string("tail"); return w.write(o); }
  }
}
template <class TV, class W>
static St write_wrapped(W& w, const TV& t, int, std::false_type) { return w.write(t); }
template <class TV, bool Ctx>
static WriteOut do_write(const std::vector<int>& assign, int ctx) {
  WriteOut o;
  TV t;
  fill(t, assign);
  WPed w(4096);
  St st = write_wrapped(w, t, ctx, std::integral_constant<bool, Ctx>{});
  o.err = st ? ecode(w.write(kSentinel)) : ecode(st);
  o.bytes = w.bytes();
  return o;
}
template <class TV, class Rig>
static St read_wrapped(Rig& rig, TV& t, int, bool, ReadOut& r, std::false_type) {
  St st = rig.read(&t);
  if (st) r.obs = observe(t);
  return st;
}
template <class TV, class Rig>
static St read_wrapped(Rig& rig, TV& t, int ctx, bool prefill, ReadOut& r, std::true_type) {
  St st;
  switch (ctx) {
    case BARE: st = rig.read(&t); if (st) r.obs = observe(t); break;
    case IN_STRUCT: {
      vt::S2<TV, int32_t> s{t, 0};
      st = rig.read(&s);
      if (st) { r.obs = observe(s.a); r.ctx_ok = s.b == 0x1234; }
      break;
    }
    case IN_VECTOR: {
      std::vector<TV> v;
      if (prefill) v.push_back(t);
      st = rig.read(&v);
      if (st) { r.ctx_ok = v.size() == 2; if (v.size() == 2) { r.obs = observe(v[0]); r.obs2 = observe(v[1]); } }
      break;
    }
    case IN_LAST_ENTRY: {
      vt::T2<std::string, TV> o;
      st = rig.read(&o);
      if (st) { r.ctx_ok = !o.a.empty() && !o.b.empty() && o.a.get() == "head"; if (!o.b.empty()) r.obs = observe(o.b.get()); }
      break;
    }
    default: {
      vt::T2<TV, std::string> o;
      if (prefill) { o.a = t; o.b = std::string("stale"); }
      st = rig.read(&o);
      if (st) {
        r.outer_a_present = !o.a.empty();
        r.outer_b_present = !o.b.empty();
        if (!o.b.empty()) r.outer_b = o.b.get();
        r.ctx_ok = !o.a.empty() && !o.b.empty() && o.b.get() == "tail";
        if (!o.a.empty()) r.obs = observe(o.a.get());
      }
      break;
    }
  }
  return st;
}
template <class TV, class Rig, bool Ctx>
static ReadOut do_read(const uint8_t* d, size_t n, int ctx, bool prefill) {
  ReadOut r;
  Rig rig(d, n);
  TV t;
  if (prefill) {  // the reader's object is not empty before the read
    std::vector<int> a(8, 1);
    fill(t, a);
  }
  St st = read_wrapped(rig, t, ctx, prefill, r, std::integral_constant<bool, Ctx>{});
  if (!st) { r.err = ecode(st); return r; }
  int32_t s = 0;
  St st2 = rig.read(&s);
  r.sentinel_ok = st2 && s == kSentinel;
  r.at_end = rig.consumed() == n;
  return r;
}

enum RigId { R_PED, R_BUF, R_STR, R_BPED, R_FWD, NRIG };  // R_FWD joins the version-pair (C07) and truncation (C05) loops
static const char* kRig[] = {"PedanticBufferReader", "BufferReader", "StreamReader<stringstream>", "BoundedReader<PedanticBufferReader>", "StreamReader<forward-only stream>"};

struct Version {
  int index = 0;
  std::string desc;
  std::vector<EntryDesc> entries;
  std::function<WriteOut(const std::vector<int>&, int)> write;
  std::function<ReadOut(int rig, const uint8_t*, size_t, int ctx, bool prefill)> read;  // only for versions of this shard
  bool ctx_capable = false;
};
static std::vector<Version> g_versions;

template <class TV>
static ReadOut read_any(int rig, const uint8_t* d, size_t n, int ctx, bool prefill) {
  switch (rig) {
    case R_PED: return do_read<TV, RPed, true>(d, n, ctx, prefill);
    case R_BUF: return do_read<TV, RBuf, true>(d, n, ctx, prefill);
    case R_STR: return do_read<TV, RStr, true>(d, n, ctx, prefill);
    case R_FWD: return do_read<TV, RStrFwd, true>(d, n, ctx, prefill);
    default: return do_read<TV, RBounded<RPed>, true>(d, n, ctx, prefill);
  }
}
template <class TV>
static ReadOut read_bare(int rig, const uint8_t* d, size_t n, int ctx, bool prefill) {
  (void)ctx;
  switch (rig) {
    case R_PED: return do_read<TV, RPed, false>(d, n, BARE, prefill);
    case R_BUF: return do_read<TV, RBuf, false>(d, n, BARE, prefill);
    case R_STR: return do_read<TV, RStr, false>(d, n, BARE, prefill);
    case R_FWD: return do_read<TV, RStrFwd, false>(d, n, BARE, prefill);
    default: return do_read<TV, RBounded<RPed>, false>(d, n, BARE, prefill);
  }
}
// contexts are instantiated for every 11th version only (compile cost); all pairs among them are explored
#ifdef CTX_ALL
static constexpr bool ctx_version(int) { return true; }  // thorough tier: every version in every wrapping context
#else
static constexpr bool ctx_version(int i) { return i % 11 == 0; }
#endif

template <bool Reader, bool Ctx, class TV>
struct Reg {
  static void go(Version& v) {
    v.read = Ctx ? &read_any<TV> : &read_bare<TV>;
  }
};
template <bool Ctx, class TV>
struct Reg<false, Ctx, TV> {
  static void go(Version&) {}
};
template <bool Ctx, class TV>
struct RegW {
  static void go(Version& v) { v.write = [](const std::vector<int>& a, int ctx) { return do_write<TV, true>(a, ctx); }; v.ctx_capable = true; }
};
template <class TV>
struct RegW<false, TV> {
  static void go(Version& v) { v.write = [](const std::vector<int>& a, int) { return do_write<TV, false>(a, BARE); }; }
};

static void register_versions() {
#define X(i, T, d)                                                                   \
  {                                                                                  \
    Version v;                                                                       \
    v.index = i;                                                                     \
    v.desc = d;                                                                      \
    v.entries = describe<T>();                                                       \
    RegW<ctx_version(i), T>::go(v);                                                  \
    Reg<(i % NSHARDS) == SHARD, ctx_version(i), T>::go(v);                           \
    g_versions.push_back(std::move(v));                                              \
  }
  TL_VERSIONS(X)
#undef X
}

static Sch version_sch(const Version& v) {
  Sch s = Sch::Of(K::Tab);
  s.n = siphash24_cstr("EvoTable", kTableKey0, kTableKey1);
  for (auto& e : v.entries) { s.kids.push_back(e.sch); s.ids.push_back(e.id); s.deleted.push_back(e.active ? 0 : 1); }
  s.name = "EvoTable{" + v.desc + "}";
  return s;
}
static Val version_val(const Version& v, const std::vector<int>& assign) {
  Val t;
  for (size_t i = 0; i < v.entries.size(); i++) {
    Val e;
    if (v.entries[i].active && assign[i]) { e.u = 1; e.kids.push_back(pool_value(v.entries[i].id, assign[i])); }
    t.kids.push_back(e);
  }
  return t;
}
static std::vector<std::vector<int>> assignments(const Version& v, int nvals) {
  std::vector<std::vector<int>> out;
  std::vector<int> a(v.entries.size(), 0);
  std::function<void(size_t)> rec = [&](size_t i) {
    if (i == v.entries.size()) { out.push_back(a); return; }
    if (!v.entries[i].active) { a[i] = 0; rec(i + 1); return; }
    for (int x = 0; x <= nvals; x++) { a[i] = x; rec(i + 1); }
  };
  rec(0);
  return out;
}
// replay filter: "<prop>|...|w<i>|r<j>|..." -> only that writer / reader version is visited
static int g_only_w = -1, g_only_r = -1;
static void parse_only() {
  if (A.only.empty()) return;
  size_t pw = A.only.find("|w");
  size_t pr = A.only.find("|r", pw == std::string::npos ? 0 : pw + 1);
  if (pw != std::string::npos) g_only_w = atoi(A.only.c_str() + pw + 2);
  if (pr != std::string::npos) g_only_r = atoi(A.only.c_str() + pr + 2);
}
static bool skip_w(const Version& v) { return g_only_w >= 0 && v.index != g_only_w; }
static bool skip_r(const Version& v) { return g_only_r >= 0 && v.index != g_only_r; }
static std::string astr(const std::vector<int>& a) { std::string s; for (int x : a) s += (char)('0' + x); return s; }

// expected observation on the reader side (reference model of table evolution)
static std::string compare_obs(const Version& wv, const std::vector<int>& assign, const Version& rv, const std::vector<Obs>& obs) {
  if (obs.size() != rv.entries.size()) return "observation size";
  for (size_t j = 0; j < rv.entries.size(); j++) {
    const EntryDesc& re = rv.entries[j];
    int which = 0;
    for (size_t i = 0; i < wv.entries.size(); i++)
      if (wv.entries[i].id == re.id && wv.entries[i].active) which = assign[i];
    const bool expect_present = re.active && which != 0;
    if (obs[j].present != expect_present)
      return "entry id " + std::to_string(re.id) + (obs[j].present ? " is present but must be empty" : " is empty but the writer set it");
    if (expect_present && obs[j].v != pool_value(re.id, which)) return "entry id " + std::to_string(re.id) + " carries a different value";
  }
  return "";
}

// ================================================================ C07
static void run_c07() {
  const int nvals = A.thorough() ? 2 : 2;
  uint64_t pairs = 0;
  for (auto& wv : g_versions) {
    if (skip_w(wv)) continue;
    std::vector<std::vector<int>> as = assignments(wv, nvals);
    // writer bytes per (assignment, ctx) -- written once, checked against the reference encoder
    for (auto& a : as) {
      for (int ctx = 0; ctx < NCTX; ctx++) {
        if (ctx != BARE && !wv.ctx_capable) continue;
        WriteOut wo = wv.write(a, ctx);
        if (wo.err) {
          R.viol("C07|write-failed", "C07|w" + std::to_string(wv.index) + "|a" + astr(a) + "|" + kCtx[ctx], std::string("writer failed: ") + ename(wo.err));
          continue;
        }
        if (ctx == BARE) {
          std::vector<uint8_t> ref = refenc_bytes(version_sch(wv), version_val(wv, a));
          Enc se; enc_sint(se, kSentinel, Role::IntValue);
          ref.insert(ref.end(), se.bytes.begin(), se.bytes.end());
          if (ref != wo.bytes)
            R.viol("C07|writer-bytes-differ-from-reference", "C07|w" + std::to_string(wv.index) + "|a" + astr(a) + "|bare", "bytes differ from the reference encoder",
                   "{\"writer\":" + jstr(wv.desc) + ",\"got\":" + jstr(hex(wo.bytes)) + ",\"want\":" + jstr(hex(ref)) + "}");
        }
        for (auto& rv : g_versions) {
          if (!rv.read || skip_r(rv)) continue;
          if (ctx != BARE && !rv.ctx_capable) continue;
          for (int rig = 0; rig < NRIG; rig++) {
            for (int prefill = 0; prefill < 2; prefill++) {
              if (prefill && rig != R_PED) continue;  // prior contents: one rig is enough, the decode path is shared
              std::string cid = "C07|w" + std::to_string(wv.index) + "|r" + std::to_string(rv.index) + "|a" + astr(a) + "|" + kCtx[ctx] + "|" + kRig[rig] + (prefill ? "|prefilled" : "");
              if (!R.only.empty() && R.only != cid) continue;
              ReadOut ro = rv.read(rig, wo.bytes.data(), wo.bytes.size(), ctx, prefill != 0);
              R.counters["evaluations"]++;
              R.counters["traces_validated_against_impl"]++;
              R.distinct_direct++;
              std::string why;
              if (ro.err) why = std::string("read failed with ") + ename(ro.err);
              else if (!(why = compare_obs(wv, a, rv, ro.obs)).empty()) {}
              else if (ctx == IN_VECTOR && !(why = compare_obs(wv, a, rv, ro.obs2)).empty()) why = "second vector element: " + why;
              else if (!ro.ctx_ok) why = "the wrapping " + std::string(kCtx[ctx]) + " was not restored around the table";
              else if (!ro.sentinel_ok) why = "the value following the table on the stream was not read back (reader not positioned after the table)";
              else if (!ro.at_end) why = "reader did not end exactly at the end of the data";
              if (!why.empty()) {
                R.outcome("MISMATCH");
                // signature: which evolution relation the pair exercises
                std::string rel = rv.entries.size() < wv.entries.size() ? "reader-has-fewer" : rv.entries.size() > wv.entries.size() ? "reader-has-more" : "same-count";
                R.viol(std::string("C07|") + kRig[rig] + "|" + kCtx[ctx] + "|" + rel + (ro.err ? std::string("|") + ename(ro.err) : "|value"), cid, why,
                       "{\"writer\":" + jstr(wv.desc) + ",\"reader\":" + jstr(rv.desc) + ",\"assignment\":" + jstr(astr(a)) + ",\"bytes\":" + jstr(hex(wo.bytes)) + "}");
              } else {
                R.outcome("ok");
              }
            }
          }
          pairs++;
        }
      }
    }
  }
  if (SHARD == 0) {  // the version graph is the same in every shard: report it once
    R.counters["states"] = g_versions.size() + 1;  // + the zero-entry table, a node of the search without a C++ type
    R.counters["transitions"] = kEdges;
  }
  R.note("version graph: pool " + std::to_string(kPool) + ", " + std::to_string(kVersions) + " versions, " + std::to_string(kEdges) + " evolution edges (gen/tables.py)");
  R.sample("{\"writer\":" + jstr(g_versions.size() > 17 ? g_versions[17].desc : "") + ",\"reader\":" + jstr(g_versions.size() > 40 ? g_versions[40].desc : "") +
           ",\"assignment\":\"per writer entry 0=empty 1/2=values\",\"contexts\":\"bare, struct member, vector element, outer table entry\"}");
}

// ================================================================ C05 (cross-version truncation)
static void run_c05x() {
  for (auto& wv : g_versions) {
    if (wv.entries.empty() || skip_w(wv)) continue;
    std::vector<int> a(wv.entries.size(), 2), b(wv.entries.size(), 1);
    for (auto& asg : {a, b}) {
      WriteOut wo = wv.write(asg, BARE);
      if (wo.err) continue;
      // without the sentinel: the message is exactly the table
      std::vector<uint8_t> bytes = refenc_bytes(version_sch(wv), version_val(wv, asg));
      for (auto& rv : g_versions) {
        if (!rv.read || skip_r(rv)) continue;
        for (int rig = 0; rig < NRIG; rig++)
          for (size_t k = 0; k < bytes.size(); k++) {
            std::string cid = "C05|x|w" + std::to_string(wv.index) + "|r" + std::to_string(rv.index) + "|a" + astr(asg) + "|" + kRig[rig] + "|cut" + std::to_string(k);
            if (!R.only.empty() && R.only != cid) continue;
            ReadOut ro = rv.read(rig, bytes.data(), k, BARE, false);
            R.counters["evaluations"]++;
            R.distinct_direct++;
            if (!ro.err) {
              R.outcome("ACCEPTED-TRUNCATED");
              R.viol(std::string("C05|accepted-truncation|cross-version|") + kRig[rig], cid,
                     "strict prefix (" + std::to_string(k) + " of " + std::to_string(bytes.size()) + " bytes) of a table written by {" + wv.desc + "} was decoded successfully by {" + rv.desc + "}",
                     "{\"writer\":" + jstr(wv.desc) + ",\"reader\":" + jstr(rv.desc) + ",\"bytes\":" + jstr(hex(bytes)) + ",\"cut\":" + std::to_string(k) + "}");
            } else {
              R.outcome(std::string("rejected:") + ename(ro.err));
            }
          }
      }
    }
  }
  // the same in every wrapping context (versions that have them): the enclosing reader is then a BoundedReader over the rig's
  // reader (table entry) or continues after the table (struct, vector); every strict prefix of the wrapped message is rejected
  static const size_t kSentinelBytes = 5;  // 0x86 + int32
  for (auto& wv : g_versions) {
    if (wv.entries.empty() || skip_w(wv) || !wv.ctx_capable) continue;
    std::vector<int> a(wv.entries.size(), 2), b(wv.entries.size(), 1);
    for (auto& asg : {a, b})
      for (int ctx : {(int)IN_STRUCT, (int)IN_VECTOR, (int)IN_ENTRY, (int)IN_LAST_ENTRY}) {
        WriteOut wo = wv.write(asg, ctx);
        if (wo.err || wo.bytes.size() <= kSentinelBytes) continue;
        const size_t len = wo.bytes.size() - kSentinelBytes;
        for (auto& rv : g_versions) {
          if (!rv.read || skip_r(rv) || !rv.ctx_capable) continue;
          for (int rig = 0; rig < NRIG; rig++)
            for (size_t k = 0; k < len; k++) {
              std::string cid = "C05|x|w" + std::to_string(wv.index) + "|r" + std::to_string(rv.index) + "|a" + astr(asg) + "|" + kCtx[ctx] + "|" + kRig[rig] + "|cut" + std::to_string(k);
              if (!R.only.empty() && R.only != cid) continue;
              ReadOut ro = rv.read(rig, wo.bytes.data(), k, ctx, false);
              R.counters["evaluations"]++;
              R.distinct_direct++;
              if (!ro.err) {
                R.outcome("ACCEPTED-TRUNCATED");
                R.viol(std::string("C05|accepted-truncation|cross-version|") + kCtx[ctx] + "|" + kRig[rig], cid,
                       "strict prefix (" + std::to_string(k) + " of " + std::to_string(len) + " bytes) of a table written by {" + wv.desc + "} as " + kCtx[ctx] + " was decoded successfully by {" + rv.desc + "}",
                       "{\"writer\":" + jstr(wv.desc) + ",\"reader\":" + jstr(rv.desc) + ",\"context\":" + jstr(kCtx[ctx]) + ",\"bytes\":" + jstr(hex(std::vector<uint8_t>(wo.bytes.begin(), wo.bytes.begin() + len), 200)) + ",\"cut\":" + std::to_string(k) + "}");
              } else {
                R.outcome(std::string("rejected:") + ename(ro.err));
              }
            }
        }
      }
  }
  R.sample("{\"writer\":\"every version, all entries set\",\"reader\":\"every version\",\"cut\":\"every position incl. skipped entries and padding\"}");
}

// ================================================================ C08 (framing)
static int cat_to_err(Cat c, int rig) {
  switch (c) {
    case Cat::Trunc: return (rig == R_STR || rig == R_FWD) ? (int)nop::ErrorStatus::StreamError : (int)nop::ErrorStatus::ReadLimitReached;
    case Cat::Limit: return (int)nop::ErrorStatus::ReadLimitReached;
    case Cat::Prefix: return (int)nop::ErrorStatus::UnexpectedEncodingType;
    case Cat::TableHash: return (int)nop::ErrorStatus::InvalidTableHash;
    case Cat::DupEntry: return (int)nop::ErrorStatus::DuplicateTableEntry;
    case Cat::ContainerLength: return (int)nop::ErrorStatus::InvalidContainerLength;
    case Cat::MemberCount: return (int)nop::ErrorStatus::InvalidMemberCount;
    case Cat::StringLength: return (int)nop::ErrorStatus::InvalidStringLength;
    default: return -1;
  }
}
static void run_c08() {
  const int stride = A.thorough() ? 3 : 7;  // writer versions: every stride-th; reader versions: this shard's
  MutCfg mc;
  mc.bytesub_max_len = A.thorough() ? 64 : 40;
  for (auto& wv : g_versions) {
    if (wv.index % stride != 0 && wv.entries.size() != (size_t)kPool) continue;
    if (wv.entries.empty() || skip_w(wv)) continue;
    if (A.only.find("|nested|") != std::string::npos) continue;
    std::vector<std::vector<int>> as;
    as.push_back(std::vector<int>(wv.entries.size(), 1));
    {
      std::vector<int> mixed(wv.entries.size());
      for (size_t i = 0; i < mixed.size(); i++) mixed[i] = (int)(i % 3);
      as.push_back(mixed);
    }
    if (A.thorough()) as.push_back(std::vector<int>(wv.entries.size(), 2));
    Sch ws = version_sch(wv);
    for (auto& a : as) {
      Val wval = version_val(wv, a);
      mutations(ws, wval, mc, [&](const Mut& m) {
        for (auto& rv : g_versions) {
          if (!rv.read || skip_r(rv)) continue;
          if (rv.index % 5 != 0 && rv.index != wv.index) continue;  // reader versions: own version + every 5th of the shard
          Sch rs = version_sch(rv);
          DecResult ref = refdec_bytes(rs, m.bytes.data(), m.bytes.size());
          for (int rig : {R_PED, R_BUF, R_STR, R_BPED}) {
            // inflated lengths make the unbounded stream reader allocate (Ensure is a no-op by design); an inflated ENTRY SIZE only
            // makes it skip, so those mutations are kept for the stream reader too
            if (rig == R_STR && m.max_declared > (1u << 20) && !(m.kind == MKind::FieldValue && m.role == Role::EntrySize)) continue;
            std::string cid = "C08|w" + std::to_string(wv.index) + "|r" + std::to_string(rv.index) + "|a" + astr(a) + "|" + m.id() + "|" + kRig[rig];
            if (!R.only.empty() && R.only != cid) continue;
            // read the table alone (no sentinel): success must consume exactly the reference decoder's length
            ReadOut ro;
            {
              // do_read expects a sentinel; give it one after the mutated table when the reference accepts
              std::vector<uint8_t> in = m.bytes;
              if (ref.ok) { in.resize(ref.consumed); Enc se; enc_sint(se, kSentinel, Role::IntValue); in.insert(in.end(), se.bytes.begin(), se.bytes.end()); }
              ro = rv.read(rig, in.data(), in.size(), BARE, false);
            }
            R.counters["evaluations"]++;
            R.distinct_direct++;
            std::string why, kind;
            if (ref.ok) {
              if (ro.err) { why = std::string("well-formed table (per docs/format.md) rejected with ") + ename(ro.err); kind = std::string("rejected-wellformed|") + ename(ro.err); }
              else {
                // expected entries: what the reference decoder saw
                bool same = ro.obs.size() == rv.entries.size();
                for (size_t j = 0; same && j < rv.entries.size(); j++) {
                  const Val& e = ref.val.kids[j];
                  bool present = rv.entries[j].active && e.u;
                  if (ro.obs[j].present != present) same = false;
                  else if (present && ro.obs[j].v != e.kids[0]) same = false;
                }
                if (!same) { why = "decoded entries differ from what the bytes denote"; kind = "value-differs"; }
                else if (!ro.sentinel_ok) { why = "reader is not positioned exactly after the table (surplus bytes of an entry not skipped exactly)"; kind = "position"; }
              }
            } else {
              if (!ro.err) { why = std::string("malformed table (") + cat_name(ref.cat) + ") was accepted"; kind = std::string("accepted-malformed|") + cat_name(ref.cat); }
              else if (m.category_comparable || m.kind == MKind::EntryDup || m.kind == MKind::EntryShrink) {
                int want = cat_to_err(ref.cat, rig);
                if (want > 0 && ro.err != want) { why = std::string("defect ") + cat_name(ref.cat) + " reported as " + ename(ro.err) + ", expected " + ename(want); kind = std::string("wrong-error|") + cat_name(ref.cat) + "->" + ename(ro.err); }
              }
            }
            if (!why.empty()) {
              R.outcome("MISMATCH");
              R.viol(std::string("C08|") + kRig[rig] + "|" + mkind_name(m.kind) + "|" + kind, cid, why,
                     "{\"writer\":" + jstr(wv.desc) + ",\"reader\":" + jstr(rv.desc) + ",\"mutation\":" + jstr(m.id()) + ",\"input\":" + jstr(hex(m.bytes)) + "}");
            } else {
              R.outcome(ref.ok ? "accept" : std::string("reject:") + cat_name(ref.cat));
            }
          }
        }
      });
    }
  }
  // ---- nested: the table under test sits in an entry of an enclosing table (BoundedReader inside BoundedReader)
  for (auto& wv : g_versions) {
    if (!wv.ctx_capable || wv.entries.empty() || skip_w(wv)) continue;
    if (!A.only.empty() && A.only.find("|nested|") == std::string::npos) continue;
    std::vector<int> a(wv.entries.size());
    for (size_t i = 0; i < a.size(); i++) a[i] = 1 + (int)(i % 2);
    auto outer_sch = [&](const Version& v) {
      Sch s = Sch::Of(K::Tab);
      s.n = siphash24_cstr("T2", kTableKey0, kTableKey1);
      s.kids = {version_sch(v), Br<std::string>::sch()};
      s.ids = {1, 128};
      s.deleted = {0, 0};
      return s;
    };
    Val oval;
    {
      Val ea; ea.u = 1; ea.kids.push_back(version_val(wv, a));
      Val eb; eb.u = 1; Val sv; sv.raw = "tail"; eb.kids.push_back(sv);
      oval.kids = {ea, eb};
    }
    Sch ows = outer_sch(wv);
    MutCfg mc2 = mc;
    mc2.bytesub_max_len = A.thorough() ? 48 : 0;
    mc2.bytesub = A.thorough();
    mutations(ows, oval, mc2, [&](const Mut& m) {
      if (m.kind == MKind::PrefixSwap) return;
      for (auto& rv : g_versions) {
        if (!rv.read || !rv.ctx_capable || skip_r(rv)) continue;
        Sch rs = outer_sch(rv);
        DecResult ref = refdec_bytes(rs, m.bytes.data(), m.bytes.size());
        for (int rig : {R_PED, R_BUF, R_STR, R_BPED}) {
          if (rig == R_STR && m.max_declared > (1u << 20) && !(m.kind == MKind::FieldValue && m.role == Role::EntrySize)) continue;
          std::string cid = "C08|nested|w" + std::to_string(wv.index) + "|r" + std::to_string(rv.index) + "|" + m.id() + "|" + kRig[rig];
          if (!R.only.empty() && R.only != cid) continue;
          std::vector<uint8_t> in = m.bytes;
          if (ref.ok) { in.resize(ref.consumed); Enc se; enc_sint(se, kSentinel, Role::IntValue); in.insert(in.end(), se.bytes.begin(), se.bytes.end()); }
          ReadOut ro = rv.read(rig, in.data(), in.size(), IN_ENTRY, false);
          R.counters["evaluations"]++;
          R.distinct_direct++;
          std::string why, kind;
          if (ref.ok) {
            if (ro.err) { why = std::string("well-formed nested table rejected with ") + ename(ro.err); kind = std::string("rejected-wellformed|") + ename(ro.err); }
            else {
              const Val& ea = ref.val.kids[0];
              const Val& eb = ref.val.kids[1];
              bool same = ro.outer_a_present == (bool)ea.u && ro.outer_b_present == (bool)eb.u;
              if (same && eb.u && ro.outer_b != eb.kids[0].raw) same = false;
              if (same && ea.u) {
                same = ro.obs.size() == rv.entries.size();
                for (size_t j = 0; same && j < rv.entries.size(); j++) {
                  const Val& e = ea.kids[0].kids[j];
                  bool present = rv.entries[j].active && e.u;
                  if (ro.obs[j].present != present) same = false;
                  else if (present && ro.obs[j].v != e.kids[0]) same = false;
                }
              }
              if (!same) { why = "decoded entries (outer or nested) differ from what the bytes denote"; kind = "value-differs"; }
              else if (!ro.sentinel_ok) { why = "reader is not positioned exactly after the enclosing table"; kind = "position"; }
            }
          } else if (!ro.err) {
            why = std::string("malformed nested table (") + cat_name(ref.cat) + ") was accepted";
            kind = std::string("accepted-malformed|") + cat_name(ref.cat);
          }
          if (!why.empty()) {
            R.outcome("MISMATCH");
            R.viol(std::string("C08|nested|") + kRig[rig] + "|" + mkind_name(m.kind) + "|" + kind, cid, why,
                   "{\"writer\":" + jstr(wv.desc) + ",\"reader\":" + jstr(rv.desc) + ",\"mutation\":" + jstr(m.id()) + ",\"input\":" + jstr(hex(m.bytes)) + "}");
          } else {
            R.outcome(ref.ok ? "accept" : std::string("reject:") + cat_name(ref.cat));
          }
        }
      }
    });
  }
  R.sample("{\"mutations\":\"entry dup/drop/swap, size shrink 1..12, grow 1..3 with/without padding, hash field to 17 values, every integer field re-classed, every byte x every value (<=40 bytes), truncation\"}");
}

}  // namespace tl

int main(int argc, char** argv) {
  A = Args::parse(argc, argv);
  R.only = A.only;
  tl::parse_only();
  tl::register_versions();
  // negative control: the evolution oracle must flag an observation that keeps a stale entry
  {
    tl::Version& v = tl::g_versions[0];
    std::vector<int> a(v.entries.size(), 0);
    std::vector<tl::Obs> o(v.entries.size());
    if (!o.empty()) { o[0].present = true; o[0].v = tl::pool_value(v.entries[0].id, 1); }
    if (!v.entries.empty() && tl::compare_obs(v, a, v, o).empty()) { printf("{\"t\":\"broken\",\"msg\":\"stale-entry control not flagged\"}\n"); return 2; }
    R.add("negative_controls_flagged");
  }
  if (A.prop == "C07") tl::run_c07();
  else if (A.prop == "C05") tl::run_c05x();
  else if (A.prop == "C08") tl::run_c08();
  R.finish();
  return R.violations ? 1 : 0;
}
