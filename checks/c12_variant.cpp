// C12: Variant always holds exactly one live alternative or none.
// Explicit-state search to fixpoint over three interacting variants with lifetime-tracking elements:
//   a, b : Variant<TrA, TrB(throwing), Conv>     c : Variant<TrA, TrB>
// Every reachable state (index + value of each variant) is expanded with every operation of the alphabet; after each
// operation the real objects are compared with an (index, value) reference model and the lifetime registry is read.
#include <deque>
#include <functional>
#include <map>
#include <set>

#include <nop/types/variant.h>

#include "report.h"
#include "tracked.h"

using namespace vf;
static Report R;
static Args A;

using TrA = Tr<1>;
struct SrcB { int v; };
struct TrB : Tr<2, true> {
  TrB() : Tr<2, true>() {}
  explicit TrB(int x) : Tr<2, true>(x) {}
  TrB(const SrcB& s) : Tr<2, true>(s.v + 200) {}  // converting construction of a non-last alternative; may throw
};
struct Src { int v; };
struct Conv : Tr<3> {
  Conv() : Tr<3>() {}
  explicit Conv(int x) : Tr<3>(x) {}
  Conv(const Src& s) : Tr<3>(s.v + 100) {}  // converting construction from a non-element type
};
using V3 = nop::Variant<TrA, TrB, Conv>;
using V2 = nop::Variant<TrA, TrB>;

struct MV { int index = -1; int value = 0; bool unspec = false; bool open = false; };  // open: read back from the object (resolve)
struct Model { MV a, b, c; };

struct World {
  V3* a = nullptr;
  V3* b = nullptr;
  V2* c = nullptr;
  World() { a = new V3(); b = new V3(); c = new V2(); }
  ~World() { delete a; delete b; delete c; }
};

struct Op { int code; int x; int y; };
enum {
  ASSIGN_A,      // target x (0=a,1=b,2=c), value y: = TrA{y}
  ASSIGN_B,      // = TrB{y}
  ASSIGN_CONV,   // a/b only: = Src{y}  (converting assignment -> Conv)
  ASSIGN_CONVD,  // a/b only: = Conv{y} (direct element)
  ASSIGN_EMPTY,
  COPY,          // x = y  (same type or cross)
  MOVE,          // x = move(y)
  BECOME,        // x.Become(y)
  REBUILD_COPY,  // destroy x, construct as copy of y
  REBUILD_MOVE,  // destroy x, move-construct from y
  REBUILD_VALUE, // destroy x, construct from TrB{y}
  REBUILD_CONV,  // destroy a/b, construct from Src{y}
  REBUILD_EMPTY, // destroy x, construct from EmptyVariant
  THROW_ASSIGN_B,  // arm TrB, x = TrB{y}: the construction throws
  THROW_COPY,      // arm TrB, x = y where y holds TrB and x does not
  THROW_BECOME_B,  // arm TrB, x.Become(1)
  OBSERVE,         // Visit (const and non-const), get<T>, get<I>, is<T>, index_of
  ASSIGN_CONVB,        // x = SrcB{y}: converting assignment -> TrB (not the last alternative of a and b)
  THROW_ASSIGN_CONVB,  // the same with the TrB construction armed to throw
};
static const char* kOpName[] = {"=TrA", "=TrB", "=Src(conv)", "=Conv", "=Empty", "copy=", "move=", "Become", "rebuild-copy",
                                "rebuild-move", "rebuild-TrB", "rebuild-Src", "rebuild-Empty", "throw:=TrB", "throw:copy=",
                                "throw:Become(1)", "observe", "=SrcB(conv)", "throw:=SrcB(conv)"};
static const char* kVar = "abc";
static std::string opname(const Op& o) {
  std::string s = std::string(1, kVar[o.x]) + "." + kOpName[o.code];
  switch (o.code) {
    case COPY: case MOVE: case REBUILD_COPY: case REBUILD_MOVE: case THROW_COPY: return s + "(" + kVar[o.y] + ")";
    case ASSIGN_EMPTY: case REBUILD_EMPTY: case OBSERVE: case THROW_BECOME_B: return s;
    default: return s + "(" + std::to_string(o.y) + ")";
  }
}

static std::vector<Op> alphabet() {
  std::vector<Op> ops;
  for (int x = 0; x < 3; x++) {
    for (int v : {1, 2}) { ops.push_back({ASSIGN_A, x, v}); ops.push_back({ASSIGN_B, x, v}); }
    if (x < 2) { ops.push_back({ASSIGN_CONV, x, 1}); ops.push_back({ASSIGN_CONV, x, 2}); ops.push_back({ASSIGN_CONVD, x, 1}); }
    ops.push_back({ASSIGN_EMPTY, x, 0});
    for (int y = 0; y < 3; y++) {
      // cross-variant assignment exists in both directions (V3 <- V2 and V2 <- V3 when the element fits);
      // V2 <- V3 holding Conv does not compile, so c is only assigned from c
      if (x == 2 && y != 2) continue;
      ops.push_back({COPY, x, y});
      ops.push_back({MOVE, x, y});
      if (x != y) { ops.push_back({REBUILD_COPY, x, y}); ops.push_back({REBUILD_MOVE, x, y}); ops.push_back({THROW_COPY, x, y}); }
    }
    for (int i : {-2, -1, 0, 1, 2, 3, 7}) ops.push_back({BECOME, x, i});
    ops.push_back({REBUILD_VALUE, x, 1});
    if (x < 2) ops.push_back({REBUILD_CONV, x, 2});
    ops.push_back({REBUILD_EMPTY, x, 0});
    ops.push_back({THROW_ASSIGN_B, x, 2});
    ops.push_back({THROW_BECOME_B, x, 0});
    ops.push_back({OBSERVE, x, 0});
    ops.push_back({ASSIGN_CONVB, x, 1});
    ops.push_back({THROW_ASSIGN_CONVB, x, 2});
  }
  return ops;
}

// ---------------------------------------------------------------- reference model
static MV& mref(Model& m, int x) { return x == 0 ? m.a : x == 1 ? m.b : m.c; }
static int nalts(int x) { return x == 2 ? 2 : 3; }

static void model_step(Model& m, const Op& o) {
  MV& t = mref(m, o.x);
  switch (o.code) {
    case ASSIGN_A: t = {0, o.y, false}; break;
    case ASSIGN_B: t = {1, o.y, false}; break;
    case ASSIGN_CONV: t = {2, o.y + 100, false}; break;
    case ASSIGN_CONVD: t = {2, o.y, false}; break;
    case ASSIGN_EMPTY: case REBUILD_EMPTY: t = MV(); break;
    case COPY: case REBUILD_COPY: if (o.x != o.y) t = mref(m, o.y); break;
    case MOVE: case REBUILD_MOVE: {
      MV& s = mref(m, o.y);
      if (o.x == o.y) { if (t.index >= 0) t.unspec = true; break; }  // self-move: alive, value unspecified
      t = s;
      if (s.index >= 0) s.unspec = true;  // moved-from element: alive, value unspecified
      break;
    }
    case BECOME:
      if (o.y != t.index) {
        if (o.y >= 0 && o.y < nalts(o.x)) t = {o.y, 0, false};  // default-constructed element
        else t = MV();
      }
      break;
    case REBUILD_VALUE: t = {1, o.y, false}; break;
    case REBUILD_CONV: t = {2, o.y + 100, false}; break;
    case THROW_ASSIGN_B:
      // same alternative: plain element assignment, no construction, nothing throws
      if (t.index == 1) t = {1, o.y, false};
      else t = MV();  // old element destroyed, construction threw: empty
      break;
    case THROW_COPY: {
      MV& s = mref(m, o.y);
      if (s.index == 1 && t.index != 1) t = MV();  // needs to construct a TrB: throws after destroying the old element
      else t = s;  // no TrB construction involved: behaves like copy
      break;
    }
    case THROW_BECOME_B:
      if (t.index != 1) t = MV();  // Destruct, construction throws: empty
      break;
    case OBSERVE: break;
    case ASSIGN_CONVB: t = {1, o.y + 200, false, false}; break;
    // The converting construction throws. The property allows the variant to end up empty or to keep / hold one alive
    // element; which of the two is read back from the object, and the lifetime accounting decides whether that is true.
    case THROW_ASSIGN_CONVB: t.open = true; break;
  }
}

// ---------------------------------------------------------------- real objects
static int elem_value(const nop::EmptyVariant&) { return 0; }
template <int T, bool C>
static int elem_value(const Tr<T, C>& e) { e.check("observe"); return e.v; }
static int elem_value(const Conv& e) { e.check("observe"); return e.v; }
template <class V>
static void observe_into(const V& v, int* index, int* value) {
  *index = v.index();
  *value = 0;
  v.Visit([&](const auto& e) { *value = elem_value(e); });
}

struct Visitor {
  int calls = 0, tag = -2, value = 0;
  void operator()(const nop::EmptyVariant&) { calls++; tag = -1; }
  void operator()(const TrA& e) { calls++; tag = 0; value = e.v; }
  void operator()(const TrB& e) { calls++; tag = 1; value = e.v; }
  void operator()(const Conv& e) { calls++; tag = 2; value = e.v; }
};

template <class V>
static std::string observe_checks(V& v, bool has_conv) {
  // Visit exactly once with the active element, const and non-const
  Visitor v1, v2;
  v.Visit(v1);
  const V& cv = v;
  cv.Visit(v2);
  if (v1.calls != 1 || v2.calls != 1) return "Visit called the visitor " + std::to_string(v1.calls) + "/" + std::to_string(v2.calls) + " times";
  if (v1.tag != v.index() || v2.tag != v.index()) return "Visit passed alternative " + std::to_string(v1.tag) + " but index() is " + std::to_string(v.index());
  if (v.empty() != (v.index() == -1)) return "empty() disagrees with index()";
  if (v.index() < -1 || v.index() >= (has_conv ? 3 : 2)) return "index() out of range: " + std::to_string(v.index());
  // get<T>() non-null exactly when T is active
  if ((v.template get<TrA>() != nullptr) != (v.index() == 0)) return "get<TrA>() null-ness disagrees with index()";
  if ((v.template get<TrB>() != nullptr) != (v.index() == 1)) return "get<TrB>() null-ness disagrees with index()";
  if ((v.template get<0>() != nullptr) != (v.index() == 0)) return "get<0>() null-ness disagrees with index()";
  if ((v.template get<1>() != nullptr) != (v.index() == 1)) return "get<1>() null-ness disagrees with index()";
  if (v.template is<TrA>() != (v.index() == 0) || v.template is<TrB>() != (v.index() == 1)) return "is<T>() disagrees with index()";
  if (v.template index_of<TrA>() != 0 || v.template index_of<TrB>() != 1) return "index_of<T>() wrong";
  if (v.index() == 0 && v.template get<TrA>()->v != v1.value) return "get<TrA>() points at a different element than Visit";
  if (v.index() == 1 && cv.template get<TrB>()->v != v1.value) return "const get<TrB>() points at a different element than Visit";
  return "";
}
static std::string observe_conv(V3& v) {
  if ((v.get<Conv>() != nullptr) != (v.index() == 2)) return "get<Conv>() null-ness disagrees with index()";
  if ((v.get<2>() != nullptr) != (v.index() == 2)) return "get<2>() null-ness disagrees with index()";
  return "";
}

template <class T, class S>
static void rebuild_copy(T*& t, const S& s) { delete t; t = nullptr; t = new T(s); }
template <class T, class S>
static void rebuild_move(T*& t, S& s) { delete t; t = nullptr; t = new T(std::move(s)); }

// returns a diagnostic if the operation itself misbehaved (unexpected exception etc.)
static std::string real_step(World& w, const Op& o) {
  std::string diag;
  auto on3 = [&](auto&& f) { if (o.x == 0) f(*w.a); else f(*w.b); };
  try {
    switch (o.code) {
      case ASSIGN_A: if (o.x == 2) *w.c = TrA{o.y}; else on3([&](V3& v) { v = TrA{o.y}; }); break;
      case ASSIGN_B: if (o.x == 2) *w.c = TrB{o.y}; else on3([&](V3& v) { v = TrB{o.y}; }); break;
      case ASSIGN_CONV: on3([&](V3& v) { v = Src{o.y}; }); break;
      case ASSIGN_CONVD: on3([&](V3& v) { v = Conv{o.y}; }); break;
      case ASSIGN_EMPTY: if (o.x == 2) *w.c = nop::EmptyVariant{}; else on3([&](V3& v) { v = nop::EmptyVariant{}; }); break;
      case COPY: case THROW_COPY:
        if (o.code == THROW_COPY) life().throw_countdown = 1;
        if (o.x == 2) { *w.c = *w.c; }
        else if (o.y == 2) on3([&](V3& v) { v = *w.c; });
        else on3([&](V3& v) { v = (o.y == 0 ? *w.a : *w.b); });
        life().throw_countdown = 0;
        break;
      case MOVE:
        if (o.x == 2) { *w.c = std::move(*w.c); }
        else if (o.y == 2) on3([&](V3& v) { v = std::move(*w.c); });
        else on3([&](V3& v) { v = std::move(o.y == 0 ? *w.a : *w.b); });
        break;
      case BECOME: if (o.x == 2) w.c->Become(o.y); else on3([&](V3& v) { v.Become(o.y); }); break;
      case REBUILD_COPY:
        if (o.y == 2) { if (o.x == 0) rebuild_copy(w.a, *w.c); else rebuild_copy(w.b, *w.c); }
        else if (o.x == 0) rebuild_copy(w.a, *w.b);
        else if (o.x == 1) rebuild_copy(w.b, *w.a);
        break;
      case REBUILD_MOVE:
        if (o.y == 2) { if (o.x == 0) rebuild_move(w.a, *w.c); else rebuild_move(w.b, *w.c); }
        else if (o.x == 0) rebuild_move(w.a, *w.b);
        else if (o.x == 1) rebuild_move(w.b, *w.a);
        break;
      case REBUILD_VALUE:
        if (o.x == 2) { delete w.c; w.c = nullptr; w.c = new V2(TrB{o.y}); }
        else if (o.x == 0) { delete w.a; w.a = nullptr; w.a = new V3(TrB{o.y}); }
        else { delete w.b; w.b = nullptr; w.b = new V3(TrB{o.y}); }
        break;
      case REBUILD_CONV:
        if (o.x == 0) { delete w.a; w.a = nullptr; w.a = new V3(Src{o.y}); }
        else { delete w.b; w.b = nullptr; w.b = new V3(Src{o.y}); }
        break;
      case REBUILD_EMPTY:
        if (o.x == 2) { delete w.c; w.c = nullptr; w.c = new V2(nop::EmptyVariant{}); }
        else if (o.x == 0) { delete w.a; w.a = nullptr; w.a = new V3(nop::EmptyVariant{}); }
        else { delete w.b; w.b = nullptr; w.b = new V3(nop::EmptyVariant{}); }
        break;
      case THROW_ASSIGN_B: {
        TrB tmp{o.y};           // built before arming
        life().throw_countdown = 1;
        if (o.x == 2) *w.c = tmp; else on3([&](V3& v) { v = tmp; });
        life().throw_countdown = 0;
        break;
      }
      case THROW_BECOME_B:
        life().throw_countdown = 1;
        if (o.x == 2) w.c->Become(1); else on3([&](V3& v) { v.Become(1); });
        life().throw_countdown = 0;
        break;
      case OBSERVE: break;
      case ASSIGN_CONVB: case THROW_ASSIGN_CONVB:
        if (o.code == THROW_ASSIGN_CONVB) life().throw_countdown = 1;
        if (o.x == 2) *w.c = SrcB{o.y}; else on3([&](V3& v) { v = SrcB{o.y}; });
        life().throw_countdown = 0;
        break;
    }
  } catch (const ArmedThrow&) {
    life().throw_countdown = 0;
    if (o.code != THROW_ASSIGN_B && o.code != THROW_COPY && o.code != THROW_BECOME_B && o.code != THROW_ASSIGN_CONVB) diag = "unexpected exception";
  }
  life().throw_countdown = 0;
  // a rebuild whose constructor threw leaves a null pointer: give the world an empty variant back
  if (!w.a) w.a = new V3();
  if (!w.b) w.b = new V3();
  if (!w.c) w.c = new V2();
  return diag;
}

static std::string mvstr(const MV& m) {
  return std::to_string(m.index) + ":" + (m.index < 0 ? "-" : m.unspec ? "?" : std::to_string(m.value));
}
static std::string canon(const Model& m) { return mvstr(m.a) + " " + mvstr(m.b) + " " + mvstr(m.c); }

// states the model leaves open are read back from the objects
static void resolve(World& w, Model& m) {
  MV* ms[3] = {&m.a, &m.b, &m.c};
  for (int x = 0; x < 3; x++) {
    if (!ms[x]->open) continue;
    int idx, val;
    if (x == 2) observe_into(*w.c, &idx, &val); else observe_into(x == 0 ? *w.a : *w.b, &idx, &val);
    *ms[x] = MV();
    ms[x]->index = idx;
    ms[x]->value = val;
  }
}
// compare the real world with the model; returns "" if consistent
static std::string compare(World& w, Model& m) {
  resolve(w, m);
  int idx, val;
  const MV* ms[3] = {&m.a, &m.b, &m.c};
  for (int x = 0; x < 3; x++) {
    if (x == 2) observe_into(*w.c, &idx, &val); else observe_into(x == 0 ? *w.a : *w.b, &idx, &val);
    if (idx < -1 || idx >= nalts(x)) return std::string(1, kVar[x]) + ".index() = " + std::to_string(idx) + " is out of range";
    if (idx != ms[x]->index) return std::string(1, kVar[x]) + ".index() = " + std::to_string(idx) + ", model " + std::to_string(ms[x]->index);
    if (idx >= 0 && !ms[x]->unspec && val != ms[x]->value)
      return std::string(1, kVar[x]) + " holds value " + std::to_string(val) + ", model " + std::to_string(ms[x]->value);
  }
  std::string s;
  if (!(s = observe_checks(*w.a, true)).empty()) return "a: " + s;
  if (!(s = observe_checks(*w.b, true)).empty()) return "b: " + s;
  if (!(s = observe_checks(*w.c, false)).empty()) return "c: " + s;
  if (!(s = observe_conv(*w.a)).empty()) return "a: " + s;
  if (!(s = observe_conv(*w.b)).empty()) return "b: " + s;
  long expect_live = (m.a.index >= 0) + (m.b.index >= 0) + (m.c.index >= 0);
  if ((long)life().live.size() != expect_live)
    return std::to_string(life().live.size()) + " tracked elements alive, exactly " + std::to_string(expect_live) + " variants are non-empty";
  if (life().ctors - life().dtors != expect_live) return "constructions - destructions != live elements";
  if (!life().violation.empty()) return "lifetime violation: " + life().violation;
  return "";
}

int main(int argc, char** argv) {
  A = Args::parse(argc, argv);
  R.only = A.only;
  std::vector<Op> ops = alphabet();
  // negative control: a model perturbation (Become without destroying) must be caught by the live-count oracle
  {
    life().reset();
    {
      World w;
      *w.a = TrA{1};
      // leak on purpose: construct a second element nobody owns
      TrA* leaked = new TrA{9};
      Model m;
      m.a = {0, 1, false};
      if (compare(w, m).empty()) { printf("{\"t\":\"broken\",\"msg\":\"leak control not flagged\"}\n"); return 2; }
      delete leaked;
    }
    R.add("negative_controls_flagged");
  }
  std::map<std::string, std::vector<int>> seen;
  std::deque<std::vector<int>> frontier;
  seen[canon(Model())] = {};
  frontier.push_back({});
  size_t maxd = 0;
  while (!frontier.empty()) {
    std::vector<int> h = frontier.front();
    frontier.pop_front();
    for (size_t oi = 0; oi < ops.size(); oi++) {
      life().reset();
      Model m;
      std::string hs, why;
      {
        World w;
        for (int pi : h) { real_step(w, ops[pi]); model_step(m, ops[pi]); resolve(w, m); hs += opname(ops[pi]) + ";"; }
        std::string cid = "C12|" + hs + opname(ops[oi]);
        const bool report = R.want(cid);
        std::string diag = real_step(w, ops[oi]);
        model_step(m, ops[oi]);
        why = diag.empty() ? compare(w, m) : diag;
        // copies compare equal to their source
        if (why.empty() && (ops[oi].code == COPY || ops[oi].code == REBUILD_COPY) && ops[oi].x != ops[oi].y) {
          const MV& t = mref(m, ops[oi].x);
          const MV& s = mref(m, ops[oi].y);
          if (t.index != s.index) why = "copy has a different alternative than its source";
        }
        if (report) { R.counters["transitions"]++; R.counters["evaluations"]++; }
        if (!why.empty() && report) {
          R.outcome("MISMATCH");
          R.viol(std::string("C12|") + kOpName[ops[oi].code], cid, why, "{\"history\":" + jstr(hs) + ",\"op\":" + jstr(opname(ops[oi])) + ",\"model\":" + jstr(canon(m)) + "}");
        }
      }
      // after the world is gone every tracked element must be gone too
      if (why.empty() && (!life().live.empty() || life().ctors != life().dtors || !life().violation.empty())) {
        std::string cid = "C12|" + hs + opname(ops[oi]);
        if (R.want(cid))
          R.viol(std::string("C12|teardown|") + kOpName[ops[oi].code], cid,
                 life().violation.empty() ? std::to_string(life().live.size()) + " elements still alive after all variants were destroyed" : life().violation,
                 "{\"history\":" + jstr(hs) + ",\"op\":" + jstr(opname(ops[oi])) + "}");
        continue;
      }
      if (!why.empty()) continue;
      if (R.only.empty()) R.outcome(std::string(kOpName[ops[oi].code]));
      std::string k = canon(m);
      if (!seen.count(k)) {
        std::vector<int> nh = h;
        nh.push_back((int)oi);
        seen[k] = nh;
        maxd = std::max(maxd, nh.size());
        frontier.push_back(nh);
      }
    }
  }
  R.counters["states"] = seen.size();
  R.distinct_direct = seen.size();
  R.counters["max_depth"] = maxd;
  // Second pass without state merging: the model state does not see implementation-only state (a stale index, a
  // value left in dead storage), so two histories that reach the same model state may still differ underneath.
  // Every operation sequence of length <= 3 from the initial state is executed on fresh objects and compared after
  // its last operation (prefixes are sequences of their own).
  {
    const size_t depth = 3;
    // the 3-variant alphabet is large; sequences are restricted to operations on a and b plus the c operations that
    // feed them (assignments to c), which keeps 3-step interactions between two variants exhaustive
    std::vector<size_t> sub;
    for (size_t i = 0; i < ops.size(); i++)
      if (ops[i].x != 2 || ops[i].code == ASSIGN_A || ops[i].code == ASSIGN_B || ops[i].code == ASSIGN_EMPTY) sub.push_back(i);
    std::vector<size_t> seq;
    uint64_t nseq = 0;
    std::function<void()> rec = [&]() {
      if (!seq.empty()) {
        life().reset();
        Model m;
        std::string why, hs;
        {
          World w;
          for (size_t k = 0; k + 1 < seq.size(); k++) { real_step(w, ops[seq[k]]); model_step(m, ops[seq[k]]); resolve(w, m); }
          std::string diag = real_step(w, ops[seq.back()]);
          model_step(m, ops[seq.back()]);
          why = diag.empty() ? compare(w, m) : diag;
        }
        if (why.empty() && (!life().live.empty() || life().ctors != life().dtors || !life().violation.empty()))
          why = life().violation.empty() ? std::to_string(life().live.size()) + " elements still alive after all variants were destroyed" : life().violation;
        nseq++;
        if (!why.empty()) {
          for (size_t k = 0; k < seq.size(); k++) hs += opname(ops[seq[k]]) + ";";
          std::string cid = "C12|seq|" + hs;
          if (R.want(cid)) R.viol(std::string("C12|sequence|") + kOpName[ops[seq.back()].code], cid, why, "{\"sequence\":" + jstr(hs) + "}");
          return;  // longer sequences through a broken state add nothing
        }
      }
      if (seq.size() == depth) return;
      for (size_t i : sub) { seq.push_back(i); rec(); seq.pop_back(); }
    };
    if (R.only.empty() || R.only.compare(0, 8, "C12|seq|") == 0) rec();
    R.counters["sequences_without_merging"] = nseq;
    R.counters["transitions"] += nseq;
    R.counters["evaluations"] += nseq;
  }
  {
    int n = 0;
    for (auto& kv : seen) {
      if (kv.second.size() < 3) continue;
      std::string hs;
      for (int pi : kv.second) hs += opname(ops[pi]) + ";";
      R.sample("{\"state\":" + jstr(kv.first) + ",\"history\":" + jstr(hs) + "}");
      if (++n >= 3) break;
    }
  }
  R.finish();
  return R.violations ? 1 : 0;
}
