// C17: every library reader / writer implements one byte-source / byte-sink contract.
// Explicit-state search over primitive-call histories: state = (cursor, previous call kind); every state is
// expanded with every call of the alphabet on every reader (writer) rig and compared with a cursor-over-vector
// (vector-with-capacity) reference, up to and including the first failing call. Plus: compile-time serialization
// of literal objects equals run-time serialization through every writer.
#include <array>
#include <deque>
#include <limits>
#include <set>
#include <sstream>
#include <algorithm>
#include <ostream>
#include <streambuf>

#include <nop/structure.h>
#include <nop/table.h>
#include <nop/value.h>

#include "rigs.h"
#include "report.h"

using namespace vf;
static Report R;
static Args A;
static const uint64_t U64MAX = ~0ULL;
enum : int { RLR = (int)nop::ErrorStatus::ReadLimitReached, WLR = (int)nop::ErrorStatus::WriteLimitReached,
             SERR = (int)nop::ErrorStatus::StreamError, IOERR = (int)nop::ErrorStatus::IOError };

// ================================================================ reader adapters
struct RAdapter {
  virtual ~RAdapter() {}
  virtual const char* name() const = 0;
  virtual bool has_skip() const { return true; }
  virtual bool bounded() const { return true; }       // Ensure(n) must succeed exactly when n bytes remain
  virtual int exhausted_error() const { return RLR; } // error once the data is exhausted
  virtual bool huge_bound() const { return false; }   // wrapped in a BoundedReader whose limit is 2^64-1
  virtual int ensure(uint64_t n) = 0;
  virtual int byte(uint8_t* b) = 0;
  virtual int range(int w, int cnt, uint8_t* out) = 0;
  virtual int skip(uint64_t n) = 0;
};
template <class Rd>
static int typed_range(Rd& r, int w, int cnt, uint8_t* out) {
  switch (w) {
    case 1: { uint8_t b[4] = {}; int e = ecode(r.Read(&b[0], &b[cnt])); memcpy(out, b, cnt * 1); return e; }
    case 2: { uint16_t b[4] = {}; int e = ecode(r.Read(&b[0], &b[cnt])); memcpy(out, b, cnt * 2); return e; }
    case 4: { uint32_t b[4] = {}; int e = ecode(r.Read(&b[0], &b[cnt])); memcpy(out, b, cnt * 4); return e; }
    default: { uint64_t b[4] = {}; int e = ecode(r.Read(&b[0], &b[cnt])); memcpy(out, b, cnt * 8); return e; }
  }
}
template <class Rig, bool Skip = true, bool Bounded = true, int Exhausted = RLR, bool Huge = false>
struct RA : RAdapter {
  bool huge_bound() const override { return Huge; }
  Rig rig;
  std::string nm;
  RA(const uint8_t* d, size_t n) : rig(d, n), nm(Rig::name()) {}
  const char* name() const override { return nm.c_str(); }
  bool has_skip() const override { return Skip; }
  bool bounded() const override { return Bounded; }
  int exhausted_error() const override { return Exhausted; }
  int ensure(uint64_t n) override { return ecode(rig.r.Ensure(n)); }
  int byte(uint8_t* b) override { return ecode(rig.r.Read(b)); }
  int range(int w, int cnt, uint8_t* out) override { return typed_range(rig.r, w, cnt, out); }
  template <class X = Rig>
  int skip_impl(uint64_t n, std::true_type) { return ecode(rig.r.Skip(n)); }
  int skip_impl(uint64_t, std::false_type) { return -1; }
  int skip(uint64_t n) override { return skip_impl(n, std::integral_constant<bool, Skip>{}); }
};

using RAFactory = std::function<std::unique_ptr<RAdapter>(const uint8_t*, size_t)>;
template <class T>
static RAFactory mk() {
  return [](const uint8_t* d, size_t n) { return std::unique_ptr<RAdapter>(new T(d, n)); };
}
static std::vector<RAFactory> reader_factories() {
  std::vector<RAFactory> f;
  f.push_back(mk<RA<RBuf>>());
  f.push_back(mk<RA<RPed>>());
  f.push_back(mk<RA<RStr, true, false, SERR>>());
  f.push_back(mk<RA<RFd, false, false, RLR>>());
  f.push_back(mk<RA<RStrFwd, true, false, SERR>>());  // a stream that cannot seek: Skip has to consume
  f.push_back(mk<RA<RBounded<RBuf>>>());
  f.push_back(mk<RA<RBounded<RPed>>>());
  f.push_back(mk<RA<RBounded<RStr>>>());
  f.push_back(mk<RA<RBounded<RFd>, false, true, RLR>>());  // BoundedReader::Skip needs the wrapped reader's Skip
  f.push_back(mk<RA<RBounded<RBuf, true>, true, true, RLR, true>>());
  f.push_back(mk<RA<RBounded<RPed, true>, true, true, RLR, true>>());
  f.push_back(mk<RA<RBounded<RStr, true>, true, false, SERR, true>>());
  return f;
}

struct ROp { char kind; int a; int b; };  // 'b' byte, 'r' range(w=a,cnt=b), 's' skip(sel a), 'e' ensure(sel a)
static uint64_t rsel(int sel, uint64_t rem) {
  switch (sel) {
    case 0: return 0;
    case 1: return 1;
    case 2: return 2;
    case 3: return rem;
    case 4: return rem + 1;
    case 5: return rem > 0 ? rem - 1 : 0;
    case 6: return 1ULL << 63;
    default: return U64MAX;
  }
}
static const char* kSel[] = {"0", "1", "2", "rem", "rem+1", "rem-1", "2^63", "2^64-1"};
static std::string ropname(const ROp& o) {
  switch (o.kind) {
    case 'b': return "Read(byte)";
    case 'r': return "Read(w" + std::to_string(o.a) + "x" + std::to_string(o.b) + ")";
    case 's': return std::string("Skip(") + kSel[o.a] + ")";
    default: return std::string("Ensure(") + kSel[o.a] + ")";
  }
}
static std::vector<ROp> reader_alphabet() {
  std::vector<ROp> a;
  a.push_back({'b', 0, 0});
  for (int w : {1, 2, 4, 8})
    for (int c : {0, 1, 2, 3}) a.push_back({'r', w, c});
  for (int s = 0; s < 8; s++) a.push_back({'s', s, 0});
  for (int s = 0; s < 8; s++) a.push_back({'e', s, 0});
  return a;
}

// reference: cursor over a vector
struct RefReader {
  const std::vector<uint8_t>& d;
  size_t pos = 0;
  bool step(const ROp& o, std::vector<uint8_t>* out) {  // returns false if the call must fail
    const uint64_t rem = d.size() - pos;
    out->clear();
    switch (o.kind) {
      case 'b': if (rem < 1) return false; out->push_back(d[pos++]); return true;
      case 'r': { uint64_t k = (uint64_t)o.a * o.b; if (k > rem) return false; out->assign(d.begin() + pos, d.begin() + pos + k); pos += k; return true; }
      case 's': { uint64_t n = rsel(o.a, rem); if (n > rem) return false; pos += n; return true; }
      default: { uint64_t n = rsel(o.a, rem); return n <= rem; }
    }
  }
};

static void explore_readers(size_t len, const std::vector<ROp>& ops, const std::vector<RAFactory>& facs) {
  std::vector<uint8_t> src(len);
  for (size_t i = 0; i < len; i++) src[i] = (uint8_t)(0x1f * (i + 1) + 5);
  for (size_t fi = 0; fi < facs.size(); fi++) {
    std::set<std::string> seen;
    std::deque<std::vector<int>> frontier;
    seen.insert("0/-");
    frontier.push_back({});
    std::string rname;
    while (!frontier.empty()) {
      std::vector<int> h = frontier.front();
      frontier.pop_front();
      for (size_t oi = 0; oi < ops.size(); oi++) {
        auto rd = facs[fi](src.data(), src.size());
        rname = rd->name();
        const ROp& o = ops[oi];
        if (o.kind == 's' && !rd->has_skip()) continue;
        RefReader ref{src};
        std::string hs;
        std::vector<uint8_t> tmp;
        uint8_t buf[64];
        for (int pi : h) hs += ropname(ops[pi]) + ";";
        // NOTE: histories only contain successful calls, so replaying skips needs the pre-call remainder; recompute
        // by replaying on a second reference
        {
          rd = facs[fi](src.data(), src.size());
          RefReader r2{src};
          for (int pi : h) {
            const ROp& p = ops[pi];
            const uint64_t rem = src.size() - r2.pos;
            switch (p.kind) {
              case 'b': rd->byte(buf); break;
              case 'r': rd->range(p.a, p.b, buf); break;
              case 's': rd->skip(rsel(p.a, rem)); break;
              default: rd->ensure(rsel(p.a, rem)); break;
            }
            r2.step(p, &tmp);
          }
          ref.pos = r2.pos;
        }
        std::string cid = "C17|R|" + rname + "|len" + std::to_string(len) + "|" + hs + ropname(o);
        const bool report = R.want(cid);
        const uint64_t rem = src.size() - ref.pos;
        std::vector<uint8_t> want;
        RefReader after = ref;
        const bool should_ok = after.step(o, &want);
        int e = 0;
        std::vector<uint8_t> got;
        memset(buf, 0, sizeof buf);
        switch (o.kind) {
          case 'b': e = rd->byte(buf); got.assign(buf, buf + 1); break;
          case 'r': e = rd->range(o.a, o.b, buf); got.assign(buf, buf + o.a * o.b); break;
          case 's': e = rd->skip(rsel(o.a, rem)); break;
          default: e = rd->ensure(rsel(o.a, rem)); break;
        }
        if (report) { R.counters["transitions"]++; R.counters["evaluations"]++; }
        std::string why;
        const uint64_t req = (o.kind == 's' || o.kind == 'e') ? rsel(o.a, rem) : 0;
        const bool over_huge_bound = rd->huge_bound() && req > U64MAX - ref.pos;
        if (over_huge_bound) {
          // the 2^64-1 budget itself is smaller than the request: the bound must refuse it
          if (e != RLR) why = std::string("request above the remaining 2^64-1 budget returned ") + ename(e);
        } else if (o.kind == 'e') {
          if (rd->bounded()) {
            if ((e == 0) != should_ok) why = std::string("Ensure returned ") + ename(e) + " with " + std::to_string(rem) + " bytes remaining";
            else if (e && e != RLR) why = std::string("Ensure failed with ") + ename(e) + " instead of ReadLimitReached";
          } else if (e) {
            why = std::string("Ensure on an unbounded source failed with ") + ename(e);
          }
        } else if (should_ok) {
          if (e) why = std::string("call failed with ") + ename(e) + " although the data is available";
          else if (o.kind != 's' && got != want) why = "delivered bytes " + hex(got) + " are not the source bytes " + hex(want);
        } else {
          if (!e) why = "call succeeded although the source is exhausted (delivered " + hex(got) + ")";
          else if (e != rd->exhausted_error()) why = std::string("exhausted source reported as ") + ename(e) + ", expected " + ename(rd->exhausted_error());
        }
        if (!why.empty()) {
          if (report) {
            R.outcome("MISMATCH");
            R.viol("C17|reader|" + rname + "|" + std::string(1, o.kind) + "|" + (o.kind == 'r' ? "range" : ropname(o)), cid, why,
                   "{\"reader\":" + jstr(rname) + ",\"source\":" + jstr(hex(src)) + ",\"history\":" + jstr(hs) + ",\"op\":" + jstr(ropname(o)) + "}");
          }
          continue;
        }
        if (report) R.outcome(std::string(1, o.kind) + (e ? ":fail" : ":ok"));
        if (e || !should_ok) continue;  // equivalence is required up to and including the first failing call
        std::string k = std::to_string(after.pos) + "/" + std::string(1, o.kind);
        if (seen.insert(k).second) {
          std::vector<int> nh = h;
          nh.push_back((int)oi);
          frontier.push_back(nh);
        }
      }
    }
    R.counters["states"] += seen.size();
    R.distinct_direct += seen.size();
  }
}

// fd answers: EINTR is retried transparently, EIO is an IOError, a 0-byte read is the end of the data, a short transfer is
// continued transparently. The expectation depends only on whether the scripted answer was consumed by some system call,
// not on how the class groups bytes into system calls.
static void explore_fd_answers() {
  const std::vector<uint8_t> src = {0x10, 0x21, 0x32, 0x43, 0x54, 0x65};
  for (int pos = 0; pos < 8; pos++)
    for (int ans : {1, 2, 3, 4, 5})
      for (int width : {0, 1, 2, 4, 6}) {  // 0 = byte reads, else range width
        std::string cid = "C17|fd|answer" + std::to_string(ans) + "@" + std::to_string(pos) + "|w" + std::to_string(width);
        if (!R.want(cid)) continue;
        int fd = fakefd_create(src.data(), src.size());
        fakefd_get(fd)->script.assign(pos, 0);
        fakefd_get(fd)->script.push_back(ans);
        {
          nop::FdReader r(fd);
          // read everything in units of `width` (or single bytes); model the outcome per syscall
          std::vector<uint8_t> got;
          int err = 0;
          size_t want_bytes = src.size();
          for (size_t i = 0; i < want_bytes && !err;) {
            if (width == 0) { uint8_t b; err = ecode(r.Read(&b)); if (!err) got.push_back(b); i++; }
            else {
              uint8_t buf[8];
              size_t k = std::min<size_t>(width, want_bytes - i);
              err = ecode(r.Read(buf, buf + k));
              if (!err) got.insert(got.end(), buf, buf + k);
              i += k;
            }
          }
          // reference: if system call #pos happened it answered `ans`: EINTR and short reads are transparent, EIO is an
          // IOError, 0 bytes is the end of the data; whatever was delivered before a failure is a prefix of the source
          const bool consumed = fakefd_get(fd)->call > (size_t)pos;
          int want_err = 0;
          if (consumed && ans == 2) want_err = IOERR;
          if (consumed && ans == 3) want_err = RLR;
          R.counters["evaluations"]++;
          R.nontrivial(cid);
          if (consumed) R.add("fd_answers_consumed");
          std::string why;
          if (err != want_err) why = std::string("status ") + ename(err) + ", expected " + ename(want_err);
          else if (!err && got != src) why = "delivered bytes " + hex(got) + " differ from the source " + hex(src) + " after an interrupted or short read";
          else if (err && (got.size() > src.size() || !std::equal(got.begin(), got.end(), src.begin()))) why = "bytes delivered before the failure are not a prefix of the source";
          if (!why.empty())
            R.viol("C17|fd-answer|" + std::to_string(ans), cid, why, "{\"answer\":" + std::to_string(ans) + ",\"at_syscall\":" + std::to_string(pos) + "}");
          r.Release();
        }
        fakefd_destroy(fd);
        // same for the writer
        std::string cidw = cid + "|W";
        int wfd = fakefd_create();
        fakefd_get(wfd)->script.assign(pos, 0);
        fakefd_get(wfd)->script.push_back(ans);
        {
          nop::FdWriter w(wfd);
          int err = 0;
          size_t i = 0;
          for (; i < src.size() && !err; ) {
            if (width == 0) { err = ecode(w.Write(src[i])); i++; }
            else { size_t k = std::min<size_t>(width, src.size() - i); err = ecode(w.Write(&src[i], &src[i] + k)); i += k; }
          }
          const bool consumed = fakefd_get(wfd)->call > (size_t)pos;
          int want_err = 0;
          if (consumed && ans == 2) want_err = IOERR;
          if (consumed && ans == 3) want_err = WLR;
          if (consumed) R.add("fd_answers_consumed");
          std::vector<uint8_t> out = fakefd_get(wfd)->data;
          R.counters["evaluations"]++;
          R.nontrivial(cidw);
          std::string why;
          if (err != want_err) why = std::string("status ") + ename(err) + ", expected " + ename(want_err);
          else if (!err && out != src) why = "bytes on the descriptor " + hex(out) + " differ from what was written " + hex(src);
          else if (err && (out.size() > src.size() || !std::equal(out.begin(), out.end(), src.begin()))) why = "bytes written before the failure are not a prefix of the data";
          if (!why.empty())
            R.viol("C17|fd-answer-writer|" + std::to_string(ans), cidw, why, "{\"answer\":" + std::to_string(ans) + ",\"at_syscall\":" + std::to_string(pos) + "}");
          w.Release();
        }
        fakefd_destroy(wfd);
      }
}

// ================================================================ writer adapters
struct WAdapter {
  virtual ~WAdapter() {}
  virtual const char* name() const = 0;
  virtual bool has_skip() const { return true; }
  virtual bool checked() const = 0;    // refuses by itself
  virtual bool unbounded() const { return false; }
  virtual bool sink_limited() const { return false; }  // a stream over a sink that takes `cap` characters and then refuses
  virtual int prepare(uint64_t n) = 0;
  virtual int byte(uint8_t b) = 0;
  virtual int range(int w, int cnt, const uint8_t* in) = 0;
  virtual int skip(uint64_t n, uint8_t v, bool with_value) = 0;
  virtual std::vector<uint8_t> bytes() = 0;
  virtual bool intact() = 0;
};
template <class Wr>
static int typed_wrange(Wr& w, int width, int cnt, const uint8_t* in) {
  switch (width) {
    case 1: { uint8_t b[4]; memcpy(b, in, 4); return ecode(w.Write(&b[0], &b[cnt])); }
    case 2: { uint16_t b[4]; memcpy(b, in, 8); return ecode(w.Write(&b[0], &b[cnt])); }
    case 4: { uint32_t b[4]; memcpy(b, in, 16); return ecode(w.Write(&b[0], &b[cnt])); }
    default: { uint64_t b[4]; memcpy(b, in, 32); return ecode(w.Write(&b[0], &b[cnt])); }
  }
}
template <class Rig, bool Skip = true, bool Unbounded = false, bool Limited = false>
struct WA : WAdapter {
  Rig rig;
  std::string nm;
  explicit WA(size_t cap) : rig(cap), nm(Rig::name()) {}
  const char* name() const override { return nm.c_str(); }
  bool has_skip() const override { return Skip; }
  bool checked() const override { return Rig::checked; }
  bool unbounded() const override { return Unbounded; }
  bool sink_limited() const override { return Limited; }
  int prepare(uint64_t n) override { return ecode(rig.w.Prepare(n)); }
  int byte(uint8_t b) override { return ecode(rig.w.Write(b)); }
  int range(int w, int cnt, const uint8_t* in) override { return typed_wrange(rig.w, w, cnt, in); }
  int skip_impl(uint64_t n, uint8_t v, bool wv, std::true_type) { return wv ? ecode(rig.w.Skip(n, v)) : ecode(rig.w.Skip(n)); }
  int skip_impl(uint64_t, uint8_t, bool, std::false_type) { return -1; }
  int skip(uint64_t n, uint8_t v, bool wv) override { return skip_impl(n, v, wv, std::integral_constant<bool, Skip>{}); }
  std::vector<uint8_t> bytes() override { return rig.bytes(); }
  bool intact() override { return rig.intact(); }
};
// a stream whose sink accepts `cap` characters and then refuses every further one (a full device behind an ostream): the
// StreamWriter must report the failing call like every other writer - equivalence is required up to and including the
// first failing call, so the search does not continue after it and the partial output of the failing call is not compared
struct CapBuf : std::streambuf {
  std::string data;
  size_t cap = 0;
  int_type overflow(int_type ch) override {
    if (traits_type::eq_int_type(ch, traits_type::eof())) return traits_type::not_eof(ch);
    if (data.size() >= cap) return traits_type::eof();
    data.push_back(traits_type::to_char_type(ch));
    return ch;
  }
  std::streamsize xsputn(const char* p, std::streamsize n) override {
    const size_t k = std::min<size_t>((size_t)n, cap - data.size());
    data.append(p, k);
    return (std::streamsize)k;
  }
};
struct CapOStream : std::ostream {
  CapBuf buf;
  CapOStream() : std::ostream(&buf) {}
};
struct WStrCap {
  static const char* name() { return "StreamWriter<fixed-capacity sink>"; }
  static constexpr bool checked = true;
  nop::StreamWriter<CapOStream> w;
  explicit WStrCap(size_t cap) { w.stream().buf.cap = cap; }
  std::vector<uint8_t> bytes() { const std::string& d = w.stream().buf.data; return std::vector<uint8_t>(d.begin(), d.end()); }
  bool intact() { return w.stream().buf.data.size() <= w.stream().buf.cap; }
};
using WAFactory = std::function<std::unique_ptr<WAdapter>(size_t)>;
template <class T>
static WAFactory mkw() {
  return [](size_t cap) { return std::unique_ptr<WAdapter>(new T(cap)); };
}
static std::vector<WAFactory> writer_factories() {
  std::vector<WAFactory> f;
  f.push_back(mkw<WA<WBuf>>());
  f.push_back(mkw<WA<WPed>>());
  f.push_back(mkw<WA<WCex>>());
  f.push_back(mkw<WA<WStr, true, true>>());
  f.push_back(mkw<WA<WFd, false, true>>());
  f.push_back(mkw<WA<WBoundedLimit<WBuf>>>());
  f.push_back(mkw<WA<WBoundedLimit<WPed>>>());
  f.push_back(mkw<WA<WBoundedLimit<WCex>>>());
  f.push_back(mkw<WA<WBoundedLimit<WStr>>>());
  f.push_back(mkw<WA<WBoundedInner<WPed>>>());
  f.push_back(mkw<WA<WBoundedInner<WCex>>>());
  f.push_back(mkw<WA<WStrCap, true, false, true>>());
  return f;
}
struct WOp { char kind; int a; int b; };  // 'p' prepare(sel), 'b' byte, 'r' range(w,cnt), 's' skip(sel, value b)
static std::string wopname(const WOp& o) {
  switch (o.kind) {
    case 'p': return std::string("Prepare(") + kSel[o.a] + ")";
    case 'b': return "Write(byte)";
    case 'r': return "Write(w" + std::to_string(o.a) + "x" + std::to_string(o.b) + ")";
    default: return std::string("Skip(") + kSel[o.a] + (o.b == 1 ? ",0x5a)" : o.b == 2 ? ",0x00)" : ")");
  }
}
static std::vector<WOp> writer_alphabet() {
  std::vector<WOp> a;
  for (int s = 0; s < 8; s++) a.push_back({'p', s, 0});
  a.push_back({'b', 0, 0});
  for (int w : {1, 2, 4, 8})
    for (int c : {0, 1, 2, 3}) a.push_back({'r', w, c});
  for (int s = 0; s < 8; s++) a.push_back({'s', s, 0});
  a.push_back({'s', 1, 1});
  a.push_back({'s', 2, 1});
  a.push_back({'s', 3, 1});
  a.push_back({'s', 2, 2});
  return a;
}
static void fill_range(uint8_t* in, unsigned salt) {
  for (int i = 0; i < 32; i++) in[i] = (uint8_t)(0x3b * (i + 1) + 7 * salt + 1);  // pairwise distinct bytes
}

static void explore_writers(size_t cap, const std::vector<WOp>& ops, const std::vector<WAFactory>& facs) {
  for (size_t fi = 0; fi < facs.size(); fi++) {
    std::set<std::string> seen;
    std::deque<std::vector<int>> frontier;
    seen.insert("0/-");
    frontier.push_back({});
    std::string wname;
    while (!frontier.empty()) {
      std::vector<int> h = frontier.front();
      frontier.pop_front();
      for (size_t oi = 0; oi < ops.size(); oi++) {
        auto wr = facs[fi](cap);
        wname = wr->name();
        const WOp& o = ops[oi];
        if (o.kind == 's' && !wr->has_skip()) continue;
        const bool unb = wr->unbounded();
        const bool lim = wr->sink_limited();
        // reference: vector with capacity
        std::vector<uint8_t> model;
        auto rem_of = [&]() -> uint64_t { return unb ? (1ULL << 40) : cap - model.size(); };
        std::string hs;
        uint8_t in[32];
        unsigned salt = 0;
        auto apply_model = [&](const WOp& p, unsigned s) -> bool {  // false: must be refused
          const uint64_t rem = rem_of();
          switch (p.kind) {
            case 'p': return unb || rsel(p.a, rem) <= rem;
            case 'b': if (!unb && rem < 1) return false; model.push_back((uint8_t)(0xc0 + s)); return true;
            case 'r': { uint64_t k = (uint64_t)p.a * p.b; if (!unb && k > rem) return false; fill_range(in, s); model.insert(model.end(), in, in + k); return true; }
            default: { uint64_t n = rsel(p.a, rem); if (n > rem) return false; model.insert(model.end(), n, p.b == 1 ? 0x5a : 0x00); return true; }
          }
        };
        auto apply_real = [&](WAdapter& w, const WOp& p, unsigned s, uint64_t rem) -> int {
          switch (p.kind) {
            case 'p': return w.prepare(rsel(p.a, rem));
            case 'b': return w.byte((uint8_t)(0xc0 + s));
            case 'r': fill_range(in, s); return w.range(p.a, p.b, in);
            default: return w.skip(rsel(p.a, rem), p.b == 1 ? 0x5a : 0x00, p.b != 0);
          }
        };
        for (int pi : h) {
          uint64_t rem = rem_of();
          apply_real(*wr, ops[pi], salt, rem);
          apply_model(ops[pi], salt);
          hs += wopname(ops[pi]) + ";";
          salt++;
        }
        std::string cid = "C17|W|" + wname + "|cap" + std::to_string(cap) + "|" + hs + wopname(o);
        const bool report = R.want(cid);
        const uint64_t rem = rem_of();
        // sizes that an unbounded sink would really have to materialise are not issued (2^63 bytes of padding)
        if ((unb || lim) && o.kind == 's' && rsel(o.a, rem) > (1u << 20)) continue;
        // BufferWriter's documented contract: callers guard every write with Prepare; only issue fitting calls
        const bool guarded_only = !wr->checked() && !unb;
        std::vector<uint8_t> before = model;
        const bool should_ok = apply_model(o, salt) || (lim && o.kind == 'p');  // a stream cannot know its sink's capacity in Prepare
        if (guarded_only && !should_ok && o.kind != 'p') { model = before; continue; }
        int e = apply_real(*wr, o, salt, rem);
        if (report) { R.counters["transitions"]++; R.counters["evaluations"]++; }
        std::string why;
        std::vector<uint8_t> got = wr->bytes();
        if (should_ok) {
          if (e) why = std::string("call failed with ") + ename(e) + " although it fits";
          else if (got != model) why = "byte stream " + hex(got) + " differs from the reference " + hex(model);
        } else {
          if (!e) why = "call succeeded although it exceeds the capacity";
          else if (lim) {
            if (e != (int)nop::ErrorStatus::StreamError) why = std::string("the sink refused characters but the call returned ") + ename(e) + " instead of StreamError";
            else if (got.size() < before.size() || !std::equal(before.begin(), before.end(), got.begin())) why = "bytes written by earlier successful calls changed";
          }
          else if (e != WLR) why = std::string("refused with ") + ename(e) + " instead of WriteLimitReached";
          else if (got != before) why = "a refused call changed the byte stream";
        }
        if (why.empty() && !wr->intact()) why = "bytes outside the buffer were modified";
        if (!why.empty()) {
          if (report) {
            R.outcome("MISMATCH");
            R.viol("C17|writer|" + wname + "|" + std::string(1, o.kind) + "|" + (o.kind == 'r' ? "range w" + std::to_string(o.a) : wopname(o)), cid, why,
                   "{\"writer\":" + jstr(wname) + ",\"capacity\":" + std::to_string(cap) + ",\"history\":" + jstr(hs) + ",\"op\":" + jstr(wopname(o)) + "}");
          }
          continue;
        }
        if (report) R.outcome(std::string(1, o.kind) + (e ? ":refused" : ":ok"));
        if (e) continue;
        std::string k = std::to_string(model.size()) + "/" + std::string(1, o.kind);
        if (model.size() > 40) continue;  // unbounded sinks: stop growing
        if (seen.insert(k).second) {
          std::vector<int> nh = h;
          nh.push_back((int)oi);
          frontier.push_back(nh);
        }
      }
    }
    R.counters["states"] += seen.size();
    R.distinct_direct += seen.size();
  }
}

// ================================================================ compile time == run time
namespace ct {
template <typename T, size_t Size>
struct Array {
  T elements[Size];
  constexpr T& operator[](size_t i) { return elements[i]; }
  constexpr const T& operator[](size_t i) const { return elements[i]; }
  constexpr T* data() { return elements; }
  constexpr const T* data() const { return elements; }
  constexpr size_t size() const { return Size; }
  NOP_VALUE(Array, elements);
};
template <std::size_t Size, typename T>
constexpr auto Serialize(const T& value) {
  Array<std::uint8_t, Size> bytes{{}};
  nop::Serializer<nop::ConstexprBufferWriter> serializer{bytes.data(), bytes.size()};
  auto status = serializer.Write(value);
  return status ? bytes : throw status;
}
struct Ints {
  std::uint8_t a; std::int8_t b; std::uint16_t c; std::int16_t d; std::uint32_t e; std::int32_t f; std::uint64_t g; std::int64_t h; bool i; char j;
  NOP_STRUCTURE(Ints, a, b, c, d, e, f, g, h, i, j);
};
struct Arrays {
  std::uint16_t a[3]; std::uint32_t b[2]; std::int64_t c[2]; bool d[3]; char e[4]; std::int8_t f[1];
  NOP_STRUCTURE(Arrays, a, b, c, d, e, f);
};
struct LB {
  std::uint32_t data[4]; std::uint8_t count;
  NOP_STRUCTURE(LB, (data, count));
};
struct Tab {
  nop::Entry<int, 0> a; nop::Entry<Array<std::uint16_t, 3>, 1> b; nop::Entry<Ints, 200> c;
  NOP_TABLE_NS("ct.Tab", Tab, a, b, c);
};
struct Nest {
  Ints i; Array<Arrays, 2> arr; Tab t;
  NOP_STRUCTURE(Nest, i, arr, t);
};
constexpr Ints kInts1{0x7f, -64, 0x0201, -0x0201, 0x04030201u, -0x04030201, 0x0807060504030201ull, -0x0807060504030201ll, true, 'x'};
constexpr Ints kInts2{0x80, -65, 0xfffe, -32768, 0xfffefdfcu, INT32_MIN, ~0ull, INT64_MIN, false, '\x7f'};
constexpr Ints kInts3{0, 0, 0, 0, 0, 0, 0, 0, false, 0};
constexpr Arrays kArr1{{0x0201, 0x0403, 0x0605}, {0x04030201u, 0x08070605u}, {-0x0807060504030201ll, 1}, {true, false, true}, {'a', 'b', 'c', 'd'}, {-128}};
constexpr LB kLB0{{1, 2, 3, 4}, 0};
constexpr LB kLB3{{0x04030201u, 0x08070605u, 0x0c0b0a09u, 4}, 3};
constexpr LB kLB4{{1, 2, 3, 4}, 4};
constexpr Tab kTab1{10, {{{0x0201, 0x0403, 0x0605}}}, kInts1};
constexpr Tab kTab2{{}, {{{1, 2, 3}}}, {}};
constexpr Nest kNest{kInts2, {{kArr1, kArr1}}, kTab1};
#define CT_CASES(X) X(kInts1) X(kInts2) X(kInts3) X(kArr1) X(kLB0) X(kLB3) X(kLB4) X(kTab1) X(kTab2) X(kNest)
#define X(v) constexpr auto ser_##v = Serialize<nop::Encoding<std::decay_t<decltype(v)>>::Size(v)>(v);
CT_CASES(X)
#undef X
}  // namespace ct

template <class T, class Bytes>
static void check_ct(const char* name, const T& v, const Bytes& compiled) {
  std::string cid = std::string("C17|ct|") + name;
  if (!R.want(cid)) return;
  std::vector<uint8_t> want(compiled.data(), compiled.data() + compiled.size());
  // run time: laundered copy so that nothing is folded
  T copy = v;
  volatile uint8_t* vp = reinterpret_cast<volatile uint8_t*>(&copy);
  for (size_t i = 0; i < sizeof(T); i++) vp[i] = vp[i];
  auto one = [&](const char* wname, std::vector<uint8_t> got, int err) {
    R.counters["evaluations"]++;
    R.nontrivial(cid + wname);
    if (err || got != want)
      R.viol(std::string("C17|compile-time-vs-run-time|") + wname, cid,
             err ? std::string("run-time write failed with ") + ename(err) : "compile-time bytes " + hex(want) + " != run-time bytes " + hex(got),
             "{\"case\":" + jstr(name) + ",\"writer\":" + jstr(wname) + "}");
  };
  { WPed w(want.size()); int e = ecode(w.write(copy)); one("PedanticBufferWriter", w.bytes(), e); }
  { WBuf w(want.size()); int e = ecode(w.write(copy)); one("BufferWriter", w.bytes(), e); }
  { WCex w(want.size()); int e = ecode(w.write(copy)); one("ConstexprBufferWriter(run time)", w.bytes(), e); }
  { WStr w(0); int e = ecode(w.write(copy)); one("StreamWriter", w.bytes(), e); }
  { WBoundedLimit<WPed> w(want.size()); int e = ecode(w.write(copy)); one("BoundedWriter<Pedantic>", w.bytes(), e); }
}

int main(int argc, char** argv) {
  A = Args::parse(argc, argv);
  R.only = A.only;
  auto rops = reader_alphabet();
  auto wops = writer_alphabet();
  auto rf = reader_factories();
  auto wf = writer_factories();
  const size_t maxlen = A.thorough() ? 17 : 9;
  int unit = 0;
  for (size_t len = 0; len <= maxlen; len++) {
    if ((unit++ % A.nshards) == A.shard) explore_readers(len, rops, rf);
    if ((unit++ % A.nshards) == A.shard) explore_writers(len, wops, wf);
  }
  if (A.shard == 0) {
    explore_fd_answers();
#define X(v) check_ct(#v, ct::v, ct::ser_##v);
    CT_CASES(X)
#undef X
    R.add("negative_controls_flagged", 0);
  }
  R.sample("{\"reader\":\"StreamReader<stringstream>\",\"source\":\"24436281a0\",\"history\":\"Read(byte);Skip(1);\",\"op\":\"Read(w2x2)\",\"expect\":\"StreamError (3 bytes remain)\"}");
  R.sample("{\"writer\":\"ConstexprBufferWriter\",\"capacity\":5,\"history\":\"Write(w2x2);\",\"op\":\"Skip(rem+1)\",\"expect\":\"WriteLimitReached, stream unchanged\"}");
  // descriptor ownership seen by the in-memory descriptors: nothing may be read, written or closed after its close
  if (g_fd_misuse)
    R.viol("C17|descriptor-misuse", "C17|fd|misuse", std::to_string((unsigned long long)g_fd_misuse) + " system calls on descriptors that had already been closed (closed twice, or closed by a moved-from object)");
  R.finish();
  return R.violations ? 1 : 0;
}
