// C09: IsFungible<A,B> implies wire compatibility; it is reflexive and symmetric; documented pairs are fungible.
// Every ordered pair (A,B) of the fungibility universe is evaluated at compile time; for every pair the trait
// declares fungible, every value of A's domain is written as A and read as B (and re-written as B).
#include <array>
#include <limits>
#include <map>

#include <nop/protocol.h>
#include <nop/traits/is_fungible.h>

#include "domain.h"
#include "rigs.h"
#include "types.h"

using namespace vf;
using namespace vt;
static Report R;
static Args A;

struct FOps {
  std::string name;
  Sch sch;
  std::function<void*()> create;
  std::function<void(void*)> destroy;
  std::function<void(const Val&, void*)> from_val;
  std::function<void(const void*, Val&)> to_val;
  std::function<int(const void*, std::vector<uint8_t>*)> write;
  std::function<int(const uint8_t*, size_t, void*, size_t*)> read;
};
template <class T>
struct H { T v{}; };
template <class T>
static FOps fops() {
  FOps o;
  o.name = Br<T>::name();
  o.sch = Br<T>::sch();
  o.create = []() -> void* { return new H<T>(); };
  o.destroy = [](void* p) { delete static_cast<H<T>*>(p); };
  o.from_val = [](const Val& v, void* p) { Br<T>::from(v, static_cast<H<T>*>(p)->v); };
  o.to_val = [](const void* p, Val& v) { Br<T>::to(static_cast<const H<T>*>(p)->v, v); };
  o.write = [](const void* p, std::vector<uint8_t>* out) {
    WPed w(1 << 16);
    int e = ecode(w.write(static_cast<const H<T>*>(p)->v));
    *out = w.bytes();
    return e;
  };
  o.read = [](const uint8_t* d, size_t n, void* p, size_t* consumed) {
    RPed r(d, n);
    int e = ecode(r.read(&static_cast<H<T>*>(p)->v));
    *consumed = r.consumed();
    return e;
  };
  return o;
}

template <class... Ts>
struct TL {};

using i8 = std::int8_t; using u8 = std::uint8_t; using i32 = std::int32_t; using u64 = std::uint64_t;
using std::array; using std::map; using std::pair; using std::string; using std::tuple; using std::unordered_map; using std::vector;
using nop::Optional; using nop::Result; using nop::Variant;

// the fungibility universe
using Universe = TL<
    u8, i32, float, string,
    vector<u8>, vector<i32>, vector<float>, vector<string>, vector<W1<i32>>, vector<W1<string>>, vector<S2<i32, string>>,
    array<u8, 3>, array<i32, 3>, array<float, 3>, array<string, 3>, array<i32, 2>, array<W1<i32>, 3>,
    i32[3], string[3], float[3], u8[3],
    tuple<i32, i32, i32>, tuple<W1<i32>, i32, i32>, tuple<W1<i32>, W1<i32>>, tuple<u8, u8, W1<u8>>, tuple<float, float, float>, tuple<string, string, string>, tuple<i32, string>, tuple<string, i32>, tuple<i32, i32>,
    // five and more operands: every position takes part in the conjunction, also the fifth and later ones
    tuple<i32, string, i32, string, i32>, tuple<i32, string, i32, string, string>, tuple<i32, string, i32, string, W1<i32>>,
    tuple<i32, i32, i32, i32, i32, i32>, tuple<i32, i32, i32, i32, i32, string>, tuple<i32, i32, i32, i32, float, i32>,
    Variant<i32, string, float, u8, u64>, Variant<i32, string, float, u8, vector<u8>>, Variant<i32, string, float, u8, u64, i8>,
    pair<i32, string>, pair<string, i32>, pair<i32, i32>, pair<i32, W1<string>>,
    map<i32, string>, unordered_map<i32, string>, map<i32, W1<string>>, map<u8, string>,
    S1<vector<i32>>, S1<vector<string>>, S1<vector<u8>>, S1<vector<float>>,
    LBC<i32, 4, u8>, LBC<i32, 4, i32>, LBC<i32, 4, i8>, LBA<i32, 4, std::size_t>, LBC<string, 4, u8>, LBC<string, 4, i32>, LBC<u8, 4, u8>,
    LBC<float, 4, i32>, LBC<i32, 200, i32>, LBC<string, 200, i32>,
    WLB<i32, 4, u8>, WLB<string, 4, i32>, WLB<u8, 4, u8>,
    W1<i32>, W1<string>, W1<vector<i32>>, W1<W1<i32>>,
    S2<i32, string>, X2<i32, string>, S2<i32, W1<string>>, S2<string, i32>, S2<W1<i32>, string>, S1<i32>,
    T2<i32, string>, T2<W1<i32>, string>, T2<i32, W1<string>>, T2<string, i32>, T1<i32>, T1<W1<i32>>,
    T1<S1<vector<i32>>>, T1<LBC<i32, 200, i32>>,  // entry sizes: the logical buffer's Size() inside a table entry
    T3<i32, string>, T3A<i32, string>, T3<W1<i32>, string>, T3A<i32, W1<string>>,  // same hash and ids; entry 5 deleted vs active
    Optional<i32>, Optional<W1<i32>>, Optional<string>,
    Result<Err, i32>, Result<Err, W1<i32>>, Result<ErrU8, i32>,
    Variant<i32, string>, Variant<W1<i32>, string>, Variant<string, i32>, Variant<i32>>;

struct Ctx {
  std::vector<FOps> ops;
  std::map<std::string, int> index;
  std::vector<std::vector<int>> F;  // trait matrix
};

template <class T>
static int idx_of(Ctx& c) {
  std::string n = Br<T>::name();
  auto it = c.index.find(n);
  if (it != c.index.end()) return it->second;
  int i = (int)c.ops.size();
  c.index[n] = i;
  c.ops.push_back(fops<T>());
  return i;
}

// is Protocol<A>::Write(serializer, const B&) / Read(deserializer, B*) admitted?
template <class PA, class B, class = void>
struct ProtocolAdmits : std::false_type {};
template <class PA, class B>
struct ProtocolAdmits<PA, B, nop::Void<decltype(nop::Protocol<PA>::Write(std::declval<nop::Serializer<nop::PedanticBufferWriter>*>(), std::declval<const B&>())),
                                      decltype(nop::Protocol<PA>::Read(std::declval<nop::Deserializer<nop::PedanticBufferReader>*>(), std::declval<B*>()))>>
    : std::true_type {};

template <class A_, class B_>
struct PairEval {
  static void go(Ctx& c) {
    int a = idx_of<A_>(c), b = idx_of<B_>(c);
    if ((int)c.F.size() <= std::max(a, b)) { c.F.resize(std::max(a, b) + 1); }
    for (auto& row : c.F) row.resize(c.F.size(), -1);
    c.F[a][b] = nop::IsFungible<A_, B_>::value ? 1 : 0;
    c.F[b][a] = nop::IsFungible<B_, A_>::value ? 1 : 0;
    const bool admits = ProtocolAdmits<A_, B_>::value;
    if (admits != (bool)c.F[a][b]) {
      std::string cid = "C09|protocol|" + c.ops[a].name + "|" + c.ops[b].name;
      if (R.want(cid))
        R.viol("C09|protocol-disagrees-with-trait", cid, std::string("Protocol<A>::Read/Write ") + (admits ? "admits" : "rejects") + " B although IsFungible<A,B> is " + (c.F[a][b] ? "true" : "false"));
    }
  }
};
template <class A_, class... Bs>
static void row(Ctx& c, TL<Bs...>) {
  (void)std::initializer_list<int>{(PairEval<A_, Bs>::go(c), 0)...};
}
#ifndef SHARD
#define SHARD 0
#endif
#ifndef NSHARDS
#define NSHARDS 1
#endif
// rows are distributed over NSHARDS translation units (compile time is dominated by the pair matrix)
template <bool On, class A_, class L>
struct RowIf { static void go(Ctx& c, L l) { row<A_>(c, l); } };
template <class A_, class L>
struct RowIf<false, A_, L> { static void go(Ctx& c, L) { idx_of<A_>(c); } };
template <size_t... Is, class... As, class L>
static void all_pairs_impl(Ctx& c, std::index_sequence<Is...>, TL<As...>, L l) {
  (void)std::initializer_list<int>{(RowIf<(Is % NSHARDS) == SHARD, As, L>::go(c, l), 0)...};
}
template <class... As, class L>
static void all_pairs(Ctx& c, TL<As...> t, L l) {
  all_pairs_impl(c, std::index_sequence_for<As...>{}, t, l);
}

// pairs the documentation declares fungible (getting-started.md / is_fungible.h): must evaluate to true
template <class A_, class B_>
static void documented(Ctx& c, const char* why) {
  std::string cid = std::string("C09|documented|") + Br<A_>::name() + "|" + Br<B_>::name();
  if (!R.want(cid)) return;
  R.counters["evaluations"]++;
  R.nontrivial(cid);
  if (!nop::IsFungible<A_, B_>::value || !nop::IsFungible<B_, A_>::value)
    R.viol("C09|documented-pair-not-fungible", cid, std::string("documented as fungible (") + why + ") but IsFungible is false");
  if (!ProtocolAdmits<A_, B_>::value)
    R.viol("C09|documented-pair-not-admitted-by-protocol", cid, "Protocol<A>::Read/Write does not admit the documented fungible type");
  (void)c;
}

static void wire_check(Ctx& c, int a, int b) {
  const FOps& oa = c.ops[a];
  const FOps& ob = c.ops[b];
  DomainCfg cfg;
  cfg.big_strings = false;
  cfg.cap = 60;
  std::vector<Val> dom = domain(oa.sch, cfg, 0);
  size_t fits = 0;
  for (size_t i = 0; i < dom.size(); i++) {
    std::string cid = "C09|wire|" + oa.name + "|" + ob.name + "|v" + std::to_string(i);
    if (!R.want(cid)) continue;
    void* pa = oa.create();
    oa.from_val(dom[i], pa);
    Val va;
    oa.to_val(pa, va);
    std::vector<uint8_t> bytes;
    int we = oa.write(pa, &bytes);
    oa.destroy(pa);
    R.counters["evaluations"]++;
    if (bytes.size() > 1) R.nontrivial(cid);
    if (we) continue;  // not encodable as A (reported by C01/C03)
    // does the documented format say these bytes are a B? (counts must fit B's fixed size / capacity)
    DecResult ref = refdec_bytes(ob.sch, bytes.data(), bytes.size());
    auto det = [&] { return "{\"A\":" + jstr(oa.name) + ",\"B\":" + jstr(ob.name) + ",\"value\":" + vjson(oa.sch, va) + ",\"bytes\":" + jstr(hex(bytes)) + "}"; };
    if (!ref.ok) {
      if (ref.cat == Cat::ContainerLength) { R.outcome("count-does-not-fit"); continue; }  // element count does not fit B
      R.outcome("WIRE-INCOMPATIBLE");
      R.viol("C09|fungible-but-wire-incompatible|" + std::string(cat_name(ref.cat)), cid,
             "IsFungible<A,B> is true but the encoding of an A value is not an encoding of B per docs/format.md (" + std::string(cat_name(ref.cat)) + ")", det());
      continue;
    }
    fits++;
    void* pb = ob.create();
    size_t consumed = 0;
    int re = ob.read(bytes.data(), bytes.size(), pb, &consumed);
    if (re) {
      R.viol("C09|read-as-B-failed|" + std::string(ename(re)), cid, std::string("reading the A encoding as B failed with ") + ename(re), det());
      ob.destroy(pb);
      continue;
    }
    Val vb;
    ob.to_val(pb, vb);
    Val na = va, nb = vb;
    normalize(oa.sch, na);
    normalize(ob.sch, nb);
    if (na != nb) R.viol("C09|value-differs", cid, "B value " + vjson(ob.sch, vb) + " does not correspond to the A value", det());
    else if (consumed != bytes.size()) R.viol("C09|consumed-differs", cid, "B consumed " + std::to_string(consumed) + " of " + std::to_string(bytes.size()) + " bytes", det());
    else {
      std::vector<uint8_t> again;
      int w2 = ob.write(pb, &again);
      // unordered containers re-encode in their own iteration order
      bool unordered = oa.sch.unordered || ob.sch.unordered;
      for (auto& k : oa.sch.kids) unordered |= k.unordered;
      for (auto& k : ob.sch.kids) unordered |= k.unordered;
      if (w2 || (!unordered && again != bytes))
        R.viol("C09|reencode-differs", cid, w2 ? std::string("re-encoding B failed: ") + ename(w2) : "re-encoding the B value gives " + hex(again), det());
      else R.outcome("compatible");
    }
    ob.destroy(pb);
  }
  (void)fits;
}

int main(int argc, char** argv) {
  A = Args::parse(argc, argv);
  R.only = A.only;
  Ctx c;
  all_pairs(c, Universe{}, Universe{});
  const int n = (int)c.ops.size();
  size_t true_pairs = 0;
  for (auto& rowv : c.F) rowv.resize(n, -1);
  c.F.resize(n, std::vector<int>(n, -1));
  for (int a = 0; a < n; a++) {
    if (c.F[a][a] < 0) continue;  // row belongs to another shard
    std::string cid = "C09|reflexive|" + c.ops[a].name;
    if (R.want(cid)) {
      R.counters["evaluations"]++;
      if (c.F[a][a] != 1) R.viol("C09|not-reflexive", cid, "IsFungible<A,A> is false");
    }
    for (int b = 0; b < n; b++) {
      cid = "C09|symmetric|" + c.ops[a].name + "|" + c.ops[b].name;
      if (R.want(cid)) {
        R.counters["evaluations"]++;
        R.nontrivial(cid);
        if (c.F[a][b] != c.F[b][a])
          R.viol("C09|not-symmetric", cid, std::string("IsFungible<A,B> = ") + (c.F[a][b] ? "true" : "false") + " but IsFungible<B,A> = " + (c.F[b][a] ? "true" : "false"));
      }
      if (c.F[a][b] == 1) {
        true_pairs++;
        wire_check(c, a, b);
      }
    }
  }
  if (SHARD == 0) {
    documented<vector<i32>, array<i32, 3>>(c, "vector / std::array");
    documented<vector<i32>, i32[3]>(c, "vector / C array");
    documented<array<i32, 3>, i32[3]>(c, "std::array / C array");
    documented<vector<string>, tuple<string, string, string>>(c, "vector / tuple");
    documented<array<string, 3>, tuple<string, string, string>>(c, "std::array / tuple");
    documented<string[3], tuple<string, string, string>>(c, "C array / tuple");
    documented<pair<i32, string>, tuple<i32, string>>(c, "pair / tuple");
    documented<map<i32, string>, unordered_map<i32, string>>(c, "map / unordered_map");
    documented<S1<vector<i32>>, LBC<i32, 4, u8>>(c, "logical buffer / vector");
    documented<S1<vector<string>>, LBC<string, 4, i32>>(c, "logical buffer / vector");
    documented<W1<i32>, i32>(c, "value wrapper / wrapped type");
    documented<W1<vector<i32>>, vector<i32>>(c, "value wrapper / wrapped type");
    documented<S2<i32, string>, X2<i32, string>>(c, "member-wise fungible structures");
    documented<S2<i32, string>, S2<i32, W1<string>>>(c, "member-wise fungible structures");
    documented<T2<i32, string>, T2<W1<i32>, string>>(c, "tables with fungible entries");
    documented<Optional<i32>, Optional<W1<i32>>>(c, "Optional of fungible types");
    documented<Result<Err, i32>, Result<Err, W1<i32>>>(c, "Result of fungible types");
    documented<Variant<i32, string>, Variant<W1<i32>, string>>(c, "Variant of fungible types");
    // signatures
    {
      std::string cid = "C09|signature";
      if (R.want(cid)) {
        R.counters["evaluations"] += 3;
        bool s1 = nop::IsFungible<int(int, string), W1<int>(int, W1<string>)>::value;
        bool s2 = nop::IsFungible<W1<int>(int, W1<string>), int(int, string)>::value;
        bool s3 = nop::IsFungible<int(int), int(int, int)>::value;
        if (!s1 || !s2) R.viol("C09|signature-not-fungible", cid, "signatures with fungible return/arguments must be fungible");
        if (s3) R.viol("C09|signature-arity", cid, "signatures of different arity are fungible");
      }
    }
    R.counters["pairs"] = (uint64_t)n * n;
    R.counters["true_pairs"] = true_pairs;
    R.add("negative_controls_flagged", 0);
  }
  R.sample("{\"A\":\"vector<int>\",\"B\":\"array<int,3>\",\"check\":\"every vector value with 3 elements decodes as the array and re-encodes to the same bytes\"}");
  R.finish();
  return R.violations ? 1 : 0;
}
