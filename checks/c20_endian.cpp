// C20: HostEndian<T>::{FromLittle,ToLittle,FromBig,ToBig} against an independent byte-order oracle.
// Exhaustive for 8/16-bit (and 32-bit in the thorough tier), lane-alphabet^N + walks + boundaries for 64-bit.
#include <cstring>
#include <limits>
#include <type_traits>

#include <nop/utility/endian.h>

#include "report.h"

using namespace vf;

static Report R;
static bool host_little() {
  const uint16_t x = 1;
  uint8_t b[2];
  memcpy(b, &x, 2);
  return b[0] == 1;
}

template <class T>
static uint64_t bits_of(T v) {
  uint64_t b = 0;
  memcpy(&b, &v, sizeof(T));
  return b;
}
template <class T>
static T from_bits(uint64_t b) {
  T v;
  memcpy(&v, &b, sizeof(T));
  return v;
}
static uint64_t reverse_bytes(uint64_t b, size_t n) {
  uint64_t o = 0;
  for (size_t i = 0; i < n; i++) o |= ((b >> (8 * i)) & 0xff) << (8 * (n - 1 - i));
  return o;
}

enum Fn { FromLittle, ToLittle, FromBig, ToBig };
static const char* kFn[] = {"FromLittle", "ToLittle", "FromBig", "ToBig"};

// Opaque barrier so the optimiser cannot fold the library call with the oracle.
template <class T>
__attribute__((noinline)) static T call(Fn f, T v) {
  switch (f) {
    case FromLittle: return nop::HostEndian<T>::FromLittle(v);
    case ToLittle: return nop::HostEndian<T>::ToLittle(v);
    case FromBig: return nop::HostEndian<T>::FromBig(v);
    default: return nop::HostEndian<T>::ToBig(v);
  }
}
// deliberately wrong stand-in for the negative control (swaps the two orders)
// (pure harness code: independent of the library, so the control means the same on any tree)
template <class T>
static T broken_call(Fn f, T v) {
  const bool little_fn = (f == FromLittle || f == ToLittle);
  const bool identity = little_fn != host_little();  // wrong on purpose
  uint64_t b = bits_of<T>(v);
  return from_bits<T>(identity ? b : reverse_bytes(b, sizeof(T)));
}

template <class T>
static uint64_t oracle(Fn f, uint64_t bits) {
  const bool little_fn = (f == FromLittle || f == ToLittle);
  const bool identity = little_fn == host_little();
  return identity ? bits : reverse_bytes(bits, sizeof(T));
}

static int g_only_fn = -1;  // replay filter: only this function
template <class T, class F>
static bool check_value(const char* tname, uint64_t bits, F&& impl, bool control) {
  bool all_ok = true;
  const uint64_t mask = sizeof(T) == 8 ? ~0ULL : ((1ULL << (8 * sizeof(T))) - 1);
  for (int f = 0; f < 4; f++) {
    char idb[96];
    if (!control && g_only_fn >= 0 && f != g_only_fn) continue;
    T in = from_bits<T>(bits);
    T out = impl((Fn)f, in);
    uint64_t got = bits_of<T>(out) & mask;
    uint64_t want = oracle<T>((Fn)f, bits) & mask;
    bool ok = got == want;
    // inverse law: To(From(x)) == x and From(To(x)) == x
    Fn inv = (Fn)(f ^ 1);
    T back = impl(inv, out);
    bool inv_ok = (bits_of<T>(back) & mask) == (bits & mask);
    if (control) {
      if (!ok || !inv_ok) all_ok = false;
      continue;
    }
    R.counters["evaluations"]++;
    // non-trivial: the byte string is not a palindrome, so identity and reversal are distinguishable
    if (sizeof(T) > 1 && reverse_bytes(bits & mask, sizeof(T)) != (bits & mask)) R.distinct_direct++;
    if (!ok || !inv_ok) {
      all_ok = false;
      snprintf(idb, sizeof idb, "%s|%s|0x%llx", tname, kFn[f], (unsigned long long)bits);
      char m[256];
      snprintf(m, sizeof m, "%s::%s(0x%llx) = 0x%llx, expected 0x%llx%s", tname, kFn[f], (unsigned long long)bits,
               (unsigned long long)got, (unsigned long long)want, inv_ok ? "" : " (and inverse law broken)");
      R.viol(std::string("C20|") + tname + "|" + kFn[f] + (ok ? "|inverse" : "|value"), idb, m);
    }
  }
  return all_ok;
}

static const uint8_t kLanes[8] = {0x00, 0x01, 0x7f, 0x80, 0xfe, 0xff, 0xa5, 0x3c};

static bool full_sweep_flag(size_t N, const Args& a) { return N <= 2 || (N == 4 && a.thorough()); }
template <class T>
static void explore(const char* tname, const Args& a) {
  const size_t N = sizeof(T);
  auto impl = [](Fn f, T v) { return call<T>(f, v); };
  if (!a.only.empty()) {
    // replay: "<type>|<fn>|0x<bits>" -> run exactly that case
    std::string pre = std::string(tname) + "|";
    if (a.only.compare(0, pre.size(), pre) != 0) return;
    size_t bar = a.only.find('|', pre.size());
    std::string fn = a.only.substr(pre.size(), bar - pre.size());
    g_only_fn = -1;
    for (int f = 0; f < 4; f++)
      if (fn == kFn[f]) g_only_fn = f;
    if (g_only_fn < 0) return;
    uint64_t b = strtoull(a.only.c_str() + bar + 1, nullptr, 16);
    check_value<T>(tname, b, impl, false);
    return;
  }
  uint64_t cases = 0;
  const uint64_t vmask = N == 8 ? ~0ULL : ((1ULL << (8 * N)) - 1);
  std::set<uint64_t> extras;  // structured extras already executed (exact de-duplication)
  bool in_product = false;
  auto all_lanes_in_alphabet = [&](uint64_t b) {
    for (size_t i = 0; i < N; i++) {
      uint8_t l = (b >> (8 * i)) & 0xff;
      bool f = false;
      for (uint8_t k : {0x00, 0x01, 0x7f, 0x80, 0xfe, 0xff, 0xa5, 0x3c}) f |= (k == l);
      if (!f) return false;
    }
    return true;
  };
  auto one = [&](uint64_t b) {
    b &= vmask;
    if (!in_product && !full_sweep_flag(N, a)) {
      if (all_lanes_in_alphabet(b) || !extras.insert(b).second) return;  // already covered
    }
    check_value<T>(tname, b, impl, false);
    cases++;
  };
  bool full = N <= 2 || (N == 4 && a.thorough());
  if (full) {
    const uint64_t total = 1ULL << (8 * N);
    // shard by the top bits for 32-bit sweeps
    for (uint64_t v = 0; v < total; v++) {
      if (N == 4 && (int)((v >> 28) % a.nshards) != a.shard) {
        v |= (1ULL << 28) - 1;
        continue;
      }
      if (N <= 2 && a.shard != 0) break;
      one(v);
    }
    R.note(std::string(tname) + ": all 2^" + std::to_string(8 * N) + " values");
  } else if (a.shard == 0) {
    // lane alphabet ^ N
    uint64_t combos = 1;
    for (size_t i = 0; i < N; i++) combos *= 8;
    in_product = true;
    for (uint64_t c = 0; c < combos; c++) {
      uint64_t b = 0, x = c;
      for (size_t i = 0; i < N; i++) {
        b |= (uint64_t)kLanes[x & 7] << (8 * i);
        x >>= 3;
      }
      one(b);
    }
    in_product = false;
    // single-lane walks: every byte value in every lane, other lanes distinct constants
    for (size_t lane = 0; lane < N; lane++)
      for (unsigned v = 0; v < 256; v++) {
        uint64_t b = 0;
        for (size_t i = 0; i < N; i++) b |= (uint64_t)(0x11 * (i + 1)) << (8 * i);
        b &= ~(0xffULL << (8 * lane));
        b |= (uint64_t)v << (8 * lane);
        one(b);
      }
    // powers of two and neighbours
    for (size_t k = 0; k < 8 * N; k++) {
      one(1ULL << k);
      one((1ULL << k) - 1);
      one((1ULL << k) + 1);
      one(~(1ULL << k));
    }
    // all-lanes-distinct patterns
    one(0x0807060504030201ULL);
    one(0xf1e2d3c4b5a69788ULL);
    if (std::is_floating_point<T>::value) {
      // NaN payloads, infinities, denormals, signed zero
      if (N == 4) {
        for (uint64_t b : {0x7fc00000ULL, 0x7fa12345ULL, 0xffc00001ULL, 0x7f800000ULL, 0xff800000ULL, 0x00000001ULL,
                           0x80000000ULL, 0x3f800000ULL, 0xbfc00000ULL, 0x7f7fffffULL})
          one(b);
      } else {
        for (uint64_t b : {0x7ff8000000000000ULL, 0x7ff4123456789abcULL, 0xfff8000000000001ULL, 0x7ff0000000000000ULL,
                           0xfff0000000000000ULL, 0x0000000000000001ULL, 0x8000000000000000ULL, 0x3ff0000000000000ULL,
                           0xbff8000000000000ULL, 0x7fefffffffffffffULL, 0x0102030405060708ULL})
          one(b);
      }
    }
    R.note(std::string(tname) + ": lane-alphabet^" + std::to_string(N) + " + walks + boundaries");
  }
  // non-trivial = value whose byte reversal differs from itself; all enumerated values per type are distinct
  // by construction only in the full sweeps, so hash the rest.
  (void)cases;
}

int main(int argc, char** argv) {
  Args a = Args::parse(argc, argv);
  R.only = a.only;
  // negative control: the comparator must flag a swapped implementation on a non-palindromic value
  {
    bool ok32 = check_value<uint32_t>("ctl", 0x01020304, [](Fn f, uint32_t v) { return broken_call<uint32_t>(f, v); }, true);
    bool okf = check_value<float>("ctl", 0x3f800000, [](Fn f, float v) { return broken_call<float>(f, v); }, true);
    if (ok32 || okf) {
      printf("{\"t\":\"broken\",\"msg\":\"negative control (swapped conversions) was not flagged\"}\n");
      return 2;
    }
    R.add("negative_controls_flagged", 2);
  }
#define T(x) explore<x>(#x, a)
  T(int8_t);
  T(uint8_t);
  T(int16_t);
  T(uint16_t);
  T(int32_t);
  T(uint32_t);
  T(int64_t);
  T(uint64_t);
  T(float);
  T(double);
  T(char);
  if (a.thorough()) {
    T(long long);
    T(unsigned long long);
  }
#undef T
  R.sample("{\"type\":\"float\",\"fn\":\"FromLittle\",\"bits\":\"0x3f800000\",\"expect\":\"0x3f800000 on a little-endian host\"}");
  R.sample("{\"type\":\"uint64_t\",\"fn\":\"ToBig\",\"bits\":\"0x0807060504030201\",\"expect\":\"0x0102030405060708\"}");
  R.finish();
  return R.violations ? 1 : 0;
}
