// C19: no hidden shared state across threads; ThreadLocal is per thread and slot.
// Deciding pass: every pair of bodies (and one 3-thread set) under the preemption-bounded scheduler of
// harness/vsched.h; every schedule with <= P preemptions is executed and each thread's observation log must equal
// the log of the same body run alone. Visibility pass (--free, built with -fsanitize=thread): the same bodies run
// free on 4 threads x 200 iterations; ThreadSanitizer must stay silent.
#include <array>
#include <atomic>
#include <limits>
#include <map>
#include <set>
#include <string>
#include <thread>
#include <vector>

#include <nop/rpc/interface.h>
#include <nop/rpc/simple_method_receiver.h>
#include <nop/rpc/simple_method_sender.h>
#include <nop/serializer.h>
#include <nop/structure.h>
#include <nop/table.h>
#include <nop/types/thread_local.h>
#include <nop/types/variant.h>
#include <nop/base/table.h>
#include <nop/base/map.h>
#include <nop/base/optional.h>
#include <nop/base/string.h>
#include <nop/base/tuple.h>
#include <nop/base/variant.h>
#include <nop/base/vector.h>

#include "report.h"
#include "vsched.h"

using namespace vf;
static Report R;
static Args A;
#define YP() sched_yield_point()

// ---------------------------------------------------------------- yielding reader / writer (thread-private buffers)
struct YWriter {
  std::vector<uint8_t> out;
  nop::Status<void> Prepare(std::size_t) { YP(); return {}; }
  nop::Status<void> Write(std::uint8_t b) { YP(); out.push_back(b); return {}; }
  template <typename T, typename E = nop::EnableIfArithmetic<T>>
  nop::Status<void> Write(const T* b, const T* e) {
    YP();
    const uint8_t* s = reinterpret_cast<const uint8_t*>(b);
    out.insert(out.end(), s, s + (e - b) * sizeof(T));
    return {};
  }
  nop::Status<void> Skip(std::size_t n, std::uint8_t v = 0) { YP(); out.insert(out.end(), n, v); return {}; }
};
struct YReader {
  const std::vector<uint8_t>* in;
  size_t pos = 0;
  nop::Status<void> Ensure(std::size_t n) { YP(); return n > in->size() - pos ? nop::Status<void>{nop::ErrorStatus::ReadLimitReached} : nop::Status<void>{}; }
  nop::Status<void> Read(std::uint8_t* b) {
    YP();
    if (pos >= in->size()) return nop::ErrorStatus::ReadLimitReached;
    *b = (*in)[pos++];
    return {};
  }
  template <typename T, typename E = nop::EnableIfArithmetic<T>>
  nop::Status<void> Read(T* b, T* e) {
    YP();
    size_t k = (e - b) * sizeof(T);
    if (k > in->size() - pos) return nop::ErrorStatus::ReadLimitReached;
    if (k) memcpy(b, in->data() + pos, k);
    pos += k;
    return {};
  }
  nop::Status<void> Skip(std::size_t n) {
    YP();
    if (n > in->size() - pos) return nop::ErrorStatus::ReadLimitReached;
    pos += n;
    return {};
  }
};

// element with several members, so that a value torn between two threads is visible
struct Elem {
  int a; std::string b; int c;
  bool operator==(const Elem& o) const { return a == o.a && b == o.b && c == o.c; }
  NOP_STRUCTURE(Elem, a, b, c);
};
using Vec = std::vector<Elem>;
struct Tab {
  nop::Entry<Vec, 1> v; nop::Entry<std::string, 200> s; nop::Entry<std::map<int, std::string>, 3> m;
  NOP_TABLE_NS("c19.Tab", Tab, v, s, m);
};
static std::string vstr(const Vec& v) {
  std::string s;
  for (auto& e : v) s += std::to_string(e.a) + "/" + e.b + "/" + std::to_string(e.c) + ";";
  return s;
}
static Vec make_vec(int k) {
  // values differ per thread; the threads' encodings have the same shape (same call sequence)
  return {{k * 100 + 1, std::string(2, (char)('a' + k)), k * 100 + 11}, {k * 100 + 2, std::string(2, (char)('p' + k)), k * 100 + 12}};
}

using Log = std::vector<std::string>;

// B1: structure round trip through yielding writer / reader
static void body_roundtrip(int k, Log& log) {
  Vec v = make_vec(k);
  YWriter w;
  nop::Serializer<YWriter*> ser{&w};
  auto st = ser.Write(v);
  log.push_back(std::string("write:") + (st ? "ok" : "fail") + ":" + hex(w.out, 64));
  YReader r{&w.out};
  nop::Deserializer<YReader*> des{&r};
  Vec back;
  auto rs = des.Read(&back);
  log.push_back(std::string("read:") + (rs ? "ok" : "fail") + ":" + vstr(back) + (back == v ? ":same" : ":DIFFERENT"));
}
// B2: table with nested containers (BoundedReader/Writer inside)
static void body_table(int k, Log& log) {
  Tab t;
  t.v = make_vec(k);
  t.s = std::string("s") + std::to_string(k);
  t.m = std::map<int, std::string>{{k, "k"}, {k + 10, std::string(3, (char)('A' + k))}};
  YWriter w;
  nop::Serializer<YWriter*> ser{&w};
  auto st = ser.Write(t);
  log.push_back(std::string("write:") + (st ? "ok" : "fail") + ":" + hex(w.out, 96));
  YReader r{&w.out};
  nop::Deserializer<YReader*> des{&r};
  Tab back;
  auto rs = des.Read(&back);
  std::string ms;
  if (rs && !back.m.empty()) for (auto& kv : back.m.get()) ms += std::to_string(kv.first) + "=" + kv.second + ",";
  log.push_back(std::string("read:") + (rs ? "ok" : "fail") + ":" + (rs && !back.v.empty() ? vstr(back.v.get()) : "-") + ":" + (rs && !back.s.empty() ? back.s.get() : "-") + ":" + ms);
}
// B3: Variant / Optional operations on elements whose constructors and destructors are scheduling points
struct YElem {
  int v;
  static thread_local int live;
  YElem() : v(0) { YP(); live++; }
  explicit YElem(int x) : v(x) { YP(); live++; }
  YElem(const YElem& o) : v(o.v) { YP(); live++; }
  YElem(YElem&& o) : v(o.v) { YP(); live++; o.v = -1; }
  YElem& operator=(const YElem& o) { YP(); v = o.v; return *this; }
  YElem& operator=(YElem&& o) { YP(); v = o.v; o.v = -1; return *this; }
  ~YElem() { YP(); live--; }
};
thread_local int YElem::live = 0;
static void body_values(int k, Log& log) {
  {
    nop::Variant<YElem, std::string> a, b;
    a = YElem{k * 10 + 1};
    log.push_back("a:" + std::to_string(a.index()) + ":" + std::to_string(a.get<YElem>()->v));
    b = a;
    a = std::string("s") + std::to_string(k);
    log.push_back("b:" + std::to_string(b.index()) + ":" + std::to_string(b.get<YElem>()->v) + " a:" + std::to_string(a.index()) + ":" + *a.get<std::string>());
    a = std::move(b);
    a.Become(1);
    nop::Optional<YElem> o{YElem{k * 10 + 2}}, p;
    p = std::move(o);
    log.push_back("o:" + std::to_string(o.empty()) + " p:" + std::to_string(p.empty()) + ":" + std::to_string(p.get().v) + " a:" + std::to_string(a.index()));
    p.clear();
  }
  log.push_back("live:" + std::to_string(YElem::live));
}
// B4: one RPC call on a private connection (yielding pipes)
struct CIf : nop::Interface<CIf> {
  NOP_INTERFACE("c19.CIf");
  NOP_METHOD(Concat, std::string(const std::string& a, int n));
  NOP_INTERFACE_API(Concat);
};
struct YPipeR {
  std::vector<uint8_t>* buf; size_t* pos; std::function<void()> on_dry;
  bool need(size_t n) { if (buf->size() - *pos < n && on_dry) on_dry(); return buf->size() - *pos >= n; }
  nop::Status<void> Ensure(std::size_t n) { YP(); return need(n) ? nop::Status<void>{} : nop::Status<void>{nop::ErrorStatus::ReadLimitReached}; }
  nop::Status<void> Read(std::uint8_t* b) { YP(); if (!need(1)) return nop::ErrorStatus::ReadLimitReached; *b = (*buf)[(*pos)++]; return {}; }
  template <typename T, typename E = nop::EnableIfArithmetic<T>>
  nop::Status<void> Read(T* b, T* e) {
    YP();
    size_t k = (e - b) * sizeof(T);
    if (!need(k)) return nop::ErrorStatus::ReadLimitReached;
    if (k) memcpy(b, buf->data() + *pos, k);
    *pos += k;
    return {};
  }
  nop::Status<void> Skip(std::size_t n) { YP(); if (!need(n)) return nop::ErrorStatus::ReadLimitReached; *pos += n; return {}; }
};
static void body_rpc(int k, Log& log) {
  std::vector<uint8_t> req, rep;
  size_t reqpos = 0, reppos = 0;
  YWriter cw, sw;
  auto binding = nop::BindInterface(CIf::Concat::Bind([&](const std::string& a, int n) {
    log.push_back("handler:" + a + ":" + std::to_string(n));
    std::string r;
    for (int i = 0; i < n; i++) r += a;
    return r;
  }));
  YPipeR sr{&cw.out, &reqpos, nullptr};
  nop::Serializer<YWriter*> sser{&sw};
  nop::Deserializer<YPipeR*> sdes{&sr};
  YPipeR cr{&sw.out, &reppos, [&]() {
              if (cw.out.size() > reqpos) {
                auto receiver = nop::MakeSimpleMethodReceiver(&sser, &sdes);
                auto st = binding(&receiver);
                log.push_back(std::string("served:") + (st ? "ok" : "fail"));
              }
            }};
  nop::Serializer<YWriter*> cser{&cw};
  nop::Deserializer<YPipeR*> cdes{&cr};
  auto sender = nop::MakeSimpleMethodSender(&cser, &cdes);
  std::string arg = std::string(1, (char)('x' + k)) + std::to_string(k);
  auto st = CIf::Concat::Invoke(&sender, arg, k + 2);
  log.push_back(std::string("invoke:") + (st ? st.get() : std::string("fail")) + ":left=" + std::to_string(cw.out.size() - reqpos) + "/" + std::to_string(sw.out.size() - reppos));
  (void)req; (void)rep;
}
// B4b: the same call through a member-function binding with the service instance as passthrough argument
struct Service {
  Log* log;
  int tag;
  std::string OnConcat(const std::string& a, int n) {
    YP();  // the handler is itself a scheduling point: its by-reference argument must still be this thread's
    log->push_back("handler#" + std::to_string(tag) + ":" + a + ":" + std::to_string(n));
    std::string r;
    for (int i = 0; i < n; i++) { r += a; YP(); }
    return r;
  }
};
static void body_rpc_method(int k, Log& log) {
  size_t reqpos = 0, reppos = 0;
  YWriter cw, sw;
  Service svc{&log, k};
  auto binding = nop::BindInterface<Service*>(CIf::Concat::Bind(&Service::OnConcat));
  YPipeR sr{&cw.out, &reqpos, nullptr};
  nop::Serializer<YWriter*> sser{&sw};
  nop::Deserializer<YPipeR*> sdes{&sr};
  YPipeR cr{&sw.out, &reppos, [&]() {
              if (cw.out.size() > reqpos) {
                auto receiver = nop::MakeSimpleMethodReceiver(&sser, &sdes);
                auto st = binding(&receiver, &svc);
                log.push_back(std::string("served:") + (st ? "ok" : "fail"));
              }
            }};
  nop::Serializer<YWriter*> cser{&cw};
  nop::Deserializer<YPipeR*> cdes{&cr};
  auto sender = nop::MakeSimpleMethodSender(&cser, &cdes);
  std::string arg = std::string(3, (char)('k' + k)) + std::to_string(k);
  auto st = CIf::Concat::Invoke(&sender, arg, k + 2);
  log.push_back(std::string("invoke:") + (st ? st.get() : std::string("fail")) + ":left=" + std::to_string(cw.out.size() - reqpos) + "/" + std::to_string(sw.out.size() - reppos));
}
// B5 / B6: ThreadLocal scripts. Every step is a scheduling point; values are thread-specific.
struct SlotA; struct SlotB;
static void body_tls_a(int k, Log& log) {
  const int v = 1000 * (k + 1);
  YP();
  nop::ThreadLocal<int, SlotA> a{v};
  YP();
  log.push_back("a.get=" + std::to_string(a.Get()));
  nop::ThreadLocal<int, SlotA> a2{v + 100};  // same (T, Slot): the first initialisation in this thread wins
  YP();
  log.push_back("a2.get=" + std::to_string(a2.Get()));
  a.Get() = v + 1;
  YP();
  log.push_back("a2.after-write=" + std::to_string(a2.Get()));
  nop::ThreadLocal<int, SlotB> b{v + 200};  // another slot with the same T: independent
  YP();
  log.push_back("b.get=" + std::to_string(b.Get()) + " a.get=" + std::to_string(a.Get()));
  a.Clear();
  YP();
  a.Initialize(v + 5);
  YP();
  log.push_back("a.after-clear-init=" + std::to_string(a.Get()) + " b=" + std::to_string(b.Get()));
  a.Initialize(v + 6);  // already initialised: no effect
  YP();
  log.push_back("a.after-second-init=" + std::to_string(a.Get()));
  a.Clear();
  b.Clear();
  YP();
}
static void body_tls_b(int k, Log& log) {
  const int v = 1000 * (k + 1) + 500;
  YP();
  nop::ThreadLocal<int, SlotB> b{v};  // same (T, Slot) pair as body A's b, in another thread
  YP();
  nop::ThreadLocal<std::string, SlotA> s{std::string("str") + std::to_string(k)};  // same slot tag, different T
  YP();
  log.push_back("b.get=" + std::to_string(b.Get()) + " s=" + s.Get());
  b.Get() += 7;
  s.Get() += "!";
  YP();
  nop::ThreadLocal<int, SlotA> a{v + 1};
  YP();
  log.push_back("b=" + std::to_string(b.Get()) + " s=" + s.Get() + " a=" + std::to_string(a.Get()));
  b.Clear();
  s.Clear();
  a.Clear();
  YP();
}

// B7: ThreadLocal of an element type whose constructor is a scheduling point: another thread can run its own
// first initialisation of the same (T, Slot) while this thread is still inside T's constructor
struct SlotC;
static void body_tls_ctor(int k, Log& log) {
  const int v = 100 * (k + 1);
  {
    nop::ThreadLocal<YElem, SlotC> a{v};
    YP();
    log.push_back("a.get=" + std::to_string(a.Get().v));
    nop::ThreadLocal<YElem, SlotC> a2{v + 1};  // first initialisation wins
    YP();
    log.push_back("a2.get=" + std::to_string(a2.Get().v));
    a.Clear();
    YP();
    a.Initialize(v + 2);
    YP();
    log.push_back("a.after-clear-init=" + std::to_string(a.Get().v));
    a.Clear();
  }
  log.push_back("live:" + std::to_string(YElem::live));
}

struct Body { const char* name; void (*fn)(int, Log&); };
static const Body kBodies[] = {{"roundtrip", body_roundtrip}, {"table", body_table}, {"values", body_values}, {"rpc", body_rpc},
                               {"tlsA", body_tls_a}, {"tlsB", body_tls_b}, {"rpcMethod", body_rpc_method}, {"tlsCtor", body_tls_ctor}};
static const int kNumBodies = 8;

static std::string join(const Log& l) { std::string s; for (auto& x : l) s += x + "\n"; return s; }

static void explore_set(const std::vector<int>& set, int bound) {
  std::string tag;
  for (int b : set) tag += std::string(tag.empty() ? "" : "+") + kBodies[b].name;
  // solo logs: body b run alone as thread index i (values depend on the thread index)
  std::vector<Log> solo(set.size());
  for (size_t i = 0; i < set.size(); i++) kBodies[set[i]].fn((int)i, solo[i]);
  std::vector<Log> logs(set.size());
  std::vector<std::function<void()>> bodies;
  for (size_t i = 0; i < set.size(); i++) bodies.push_back([&, i] { kBodies[set[i]].fn((int)i, logs[i]); });
  ExploreStats st;
  std::set<std::string> outcomes;
  auto schedstr = [](const std::vector<int>& ch) { std::string s; for (int c : ch) s += (char)('0' + c); return s; };
  if (!A.only.empty()) {
    // replay one schedule: "C19|<tag>|<choices>"
    std::string pre = "C19|" + tag + "|";
    if (A.only.compare(0, pre.size(), pre) != 0) return;
    std::vector<int> prefix;
    for (char c : A.only.substr(pre.size())) prefix.push_back(c - '0');
    for (int rep = 0; rep < 2; rep++) {
      for (auto& l : logs) l.clear();
      Sched::get().run(prefix, bodies);
      for (size_t i = 0; i < set.size(); i++)
        if (logs[i] != solo[i])
          R.viol(std::string("C19|interference|") + kBodies[set[i]].name, A.only, "thread " + std::to_string(i) + " (" + kBodies[set[i]].name + ") observed\n" + join(logs[i]) + "alone it observes\n" + join(solo[i]));
    }
    return;
  }
  explore_schedules(bodies, bound, [&] { for (auto& l : logs) l.clear(); },
                    [&](const std::vector<int>& ch) {
                      R.counters["transitions"] += ch.size();
                      std::string oc;
                      for (size_t i = 0; i < set.size(); i++) {
                        oc += std::to_string(fnv(join(logs[i]))) + ",";
                        if (logs[i] != solo[i]) {
                          // find the first differing entry
                          size_t d = 0;
                          while (d < logs[i].size() && d < solo[i].size() && logs[i][d] == solo[i][d]) d++;
                          R.viol(std::string("C19|interference|") + kBodies[set[i]].name + "|with:" + tag, "C19|" + tag + "|" + schedstr(ch),
                                 "thread " + std::to_string(i) + " (" + kBodies[set[i]].name + ") observed '" + (d < logs[i].size() ? logs[i][d] : "(missing)") +
                                     "', alone it observes '" + (d < solo[i].size() ? solo[i][d] : "(nothing)") + "'",
                                 "{\"bodies\":" + jstr(tag) + ",\"schedule\":" + jstr(schedstr(ch)) + "}");
                        }
                      }
                      outcomes.insert(oc);
                    },
                    &st, A.thorough() ? 3000000 : 400000);
  R.counters["schedules"] += st.schedules;
  R.counters["evaluations"] += st.schedules;
  R.counters["states"] += st.schedules;  // each explored schedule is one complete execution (state = schedule prefix tree leaf)
  R.distinct_direct += st.schedules;
  R.counters["max_points"] = std::max<uint64_t>(R.counters["max_points"], st.max_points);
  if (st.diverged) { printf("{\"t\":\"broken\",\"msg\":\"schedule replay diverged for %s\"}\n", tag.c_str()); }
  if (st.schedules >= (A.thorough() ? 3000000 : 400000)) { R.add("incomplete"); R.note("schedule cap hit for " + tag); }
  R.outcome(tag + ":" + std::to_string(outcomes.size()) + "-distinct-outcome(s)");
  if (outcomes.size() != 1 && R.violations == 0)
    R.viol("C19|outcome-depends-on-schedule|" + tag, "C19|" + tag + "|", "the combined observations differ between schedules although every thread matches its solo run");
  // determinism: replaying the last explored schedule reproduces its choices
  {
    std::vector<int> c1 = Sched::get().choices;
    for (auto& l : logs) l.clear();
    Sched::get().run(c1, bodies);
    if (Sched::get().choices != c1) printf("{\"t\":\"broken\",\"msg\":\"replay of a recorded schedule made different choices (%s)\"}\n", tag.c_str());
  }
}

static void free_run() {
  // visibility pass for ThreadSanitizer: yields are no-ops (scheduler inactive), 4 threads x N iterations
  std::atomic<int> bad{0};
  const int iters = A.thorough() ? 1000 : 200;
  std::vector<std::thread> th;
  for (int t = 0; t < 4; t++)
    th.emplace_back([&, t] {
      for (int it = 0; it < iters; it++)
        for (int b = 0; b < kNumBodies; b++) {
          Log solo, log;
          kBodies[b].fn(t, log);
          (void)solo;
          if (log.empty()) bad++;
        }
    });
  for (auto& x : th) x.join();
  // sequential reference: the logs of a free concurrent run must equal the logs of a sequential run
  R.counters["evaluations"] += 4 * iters * kNumBodies;
  R.counters["free_running_iterations"] += 4 * iters * kNumBodies;
  if (bad) R.viol("C19|free-run", "C19|free", "a body produced no observations");
}
static void free_run_compare() {
  // free-running threads must produce exactly the solo logs
  const int iters = 50;
  std::vector<std::vector<Log>> got(4, std::vector<Log>(kNumBodies));
  std::atomic<int> mism{0};
  std::vector<std::thread> th;
  std::vector<std::vector<Log>> solo(4, std::vector<Log>(kNumBodies));
  for (int t = 0; t < 4; t++)
    for (int b = 0; b < kNumBodies; b++) kBodies[b].fn(t, solo[t][b]);
  for (int t = 0; t < 4; t++)
    th.emplace_back([&, t] {
      for (int it = 0; it < iters; it++)
        for (int b = 0; b < kNumBodies; b++) {
          Log log;
          kBodies[b].fn(t, log);
          if (log != solo[t][b]) mism++;
        }
    });
  for (auto& x : th) x.join();
  R.counters["evaluations"] += 4 * iters * kNumBodies;
  if (mism) R.viol("C19|free-run-interference", "C19|free", std::to_string((int)mism) + " free-running body executions differ from their sequential result");
}

int main(int argc, char** argv) {
  A = Args::parse(argc, argv);
  R.only = A.only;
  bool free_mode = false;
  for (auto& r : A.rest) if (r == "--free") free_mode = true;
  if (free_mode) {
    free_run();
    free_run_compare();
    R.nontrivial_direct(2);
    R.sample("{\"mode\":\"free-running, 4 threads, ThreadSanitizer\"}");
    R.finish();
    return R.violations ? 1 : 0;
  }
  // negative control: a body with a deliberately shared scratch variable must be caught by the explorer
  {
    static int shared_scratch;
    std::vector<Log> logs(2), solo(2);
    auto racy = [&](int k, Log& log) { shared_scratch = k; YP(); log.push_back(std::to_string(shared_scratch)); };
    racy(0, solo[0]);
    racy(1, solo[1]);
    std::vector<std::function<void()>> bodies = {[&] { racy(0, logs[0]); }, [&] { racy(1, logs[1]); }};
    ExploreStats st;
    long bad = 0;
    explore_schedules(bodies, 1, [&] { logs[0].clear(); logs[1].clear(); }, [&](const std::vector<int>&) { if (logs[0] != solo[0] || logs[1] != solo[1]) bad++; }, &st);
    if (!bad) { printf("{\"t\":\"broken\",\"msg\":\"scheduler control (shared scratch) not flagged\"}\n"); return 2; }
    R.add("negative_controls_flagged");
  }
  const int bound = A.thorough() ? 3 : 2;
  std::vector<std::vector<int>> sets;
  for (int a = 0; a < kNumBodies; a++)
    for (int b = a; b < kNumBodies; b++) sets.push_back({a, b});
  sets.push_back({4, 4, 5});
  if (A.thorough()) { sets.push_back({0, 0, 0}); sets.push_back({4, 5, 5}); sets.push_back({0, 1, 4}); }
  for (size_t i = 0; i < sets.size(); i++) {
    if ((int)(i % A.nshards) != A.shard) continue;
    explore_set(sets[i], sets[i].size() > 2 ? std::min(bound, 2) : bound);
  }
  R.sample("{\"bodies\":\"roundtrip+roundtrip\",\"schedule\":\"0000100000000100...\",\"meaning\":\"choice index among enabled threads at each scheduling point; 0 = keep running\"}");
  R.finish();
  return R.violations ? 1 : 0;
}
