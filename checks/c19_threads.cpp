// C19: no hidden shared state across threads; ThreadLocal is per thread and slot.
// Deciding pass: every pair of the eight small bodies, the all-encodings body "wide" with itself and with the two other
// serialisation bodies (and one 3-thread set) under the preemption-bounded scheduler of
// harness/vsched.h; every schedule with <= P preemptions is executed and each thread's observation log must equal
// the log of the same body run alone. Visibility pass (--free, built with -fsanitize=thread): the same bodies run
// free on 4 threads x 200 iterations; ThreadSanitizer must stay silent.
#include <errno.h>
#include <signal.h>
#include <string.h>
#include <unistd.h>
#include <algorithm>
#include <array>
#include <atomic>
#include <limits>
#include <map>
#include <set>
#include <string>
#include <thread>
#include <vector>

#include <nop/rpc/interface.h>
#include <nop/rpc/simple_method_receiver.h>
#include <nop/rpc/simple_method_sender.h>
#include <nop/serializer.h>
#include <nop/structure.h>
#include <nop/table.h>
#include <nop/types/thread_local.h>
#include <nop/types/variant.h>
#include <nop/base/table.h>
#include <nop/base/map.h>
#include <nop/base/optional.h>
#include <nop/base/string.h>
#include <nop/base/tuple.h>
#include <nop/base/variant.h>
#include <nop/base/vector.h>
#include <nop/base/array.h>
#include <nop/base/enum.h>
#include <nop/base/logical_buffer.h>
#include <nop/base/pair.h>
#include <nop/base/result.h>
#include <nop/types/optional.h>
#include <nop/types/result.h>
#include <unordered_map>
#include <istream>
#include <ostream>
#include <streambuf>
#include <nop/utility/bounded_reader.h>
#include <nop/utility/bounded_writer.h>
#include <nop/utility/buffer_reader.h>
#include <nop/utility/buffer_writer.h>
#include <nop/utility/fd_reader.h>
#include <nop/utility/fd_writer.h>
#include <nop/utility/pedantic_buffer_reader.h>
#include <nop/utility/pedantic_buffer_writer.h>
#include <nop/utility/stream_reader.h>
#include <nop/utility/stream_writer.h>

#include "report.h"
#include "vsched.h"

using namespace vf;
static Report R;
static Args A;
#define YP() sched_yield_point()

// ---------------------------------------------------------------- yielding reader / writer (thread-private buffers)
struct YWriter {
  std::vector<uint8_t> out;
  nop::Status<void> Prepare(std::size_t) { YP(); return {}; }
  nop::Status<void> Write(std::uint8_t b) { YP(); out.push_back(b); return {}; }
  template <typename T, typename E = nop::EnableIfArithmetic<T>>
  nop::Status<void> Write(const T* b, const T* e) {
    YP();
    const uint8_t* s = reinterpret_cast<const uint8_t*>(b);
    out.insert(out.end(), s, s + (e - b) * sizeof(T));
    return {};
  }
  nop::Status<void> Skip(std::size_t n, std::uint8_t v = 0) { YP(); out.insert(out.end(), n, v); return {}; }
};
struct YReader {
  const std::vector<uint8_t>* in;
  size_t pos = 0;
  nop::Status<void> Ensure(std::size_t n) { YP(); return n > in->size() - pos ? nop::Status<void>{nop::ErrorStatus::ReadLimitReached} : nop::Status<void>{}; }
  nop::Status<void> Read(std::uint8_t* b) {
    YP();
    if (pos >= in->size()) return nop::ErrorStatus::ReadLimitReached;
    *b = (*in)[pos++];
    return {};
  }
  template <typename T, typename E = nop::EnableIfArithmetic<T>>
  nop::Status<void> Read(T* b, T* e) {
    YP();
    size_t k = (e - b) * sizeof(T);
    if (k > in->size() - pos) return nop::ErrorStatus::ReadLimitReached;
    if (k) memcpy(b, in->data() + pos, k);
    pos += k;
    return {};
  }
  nop::Status<void> Skip(std::size_t n) {
    YP();
    if (n > in->size() - pos) return nop::ErrorStatus::ReadLimitReached;
    pos += n;
    return {};
  }
};

// element with several members, so that a value torn between two threads is visible
struct Elem {
  int a; std::string b; int c;
  bool operator==(const Elem& o) const { return a == o.a && b == o.b && c == o.c; }
  NOP_STRUCTURE(Elem, a, b, c);
};
using Vec = std::vector<Elem>;
struct Tab {
  nop::Entry<Vec, 1> v; nop::Entry<std::string, 200> s; nop::Entry<std::map<int, std::string>, 3> m;
  NOP_TABLE_NS("c19.Tab", Tab, v, s, m);
};
static std::string vstr(const Vec& v) {
  std::string s;
  for (auto& e : v) s += std::to_string(e.a) + "/" + e.b + "/" + std::to_string(e.c) + ";";
  return s;
}
static Vec make_vec(int k) {
  // values differ per thread; the threads' encodings have the same shape (same call sequence)
  return {{k * 100 + 1, std::string(2, (char)('a' + k)), k * 100 + 11}, {k * 100 + 2, std::string(2, (char)('p' + k)), k * 100 + 12}};
}

using Log = std::vector<std::string>;

// B1: structure round trip through yielding writer / reader
static void body_roundtrip(int k, Log& log) {
  Vec v = make_vec(k);
  YWriter w;
  nop::Serializer<YWriter*> ser{&w};
  auto st = ser.Write(v);
  log.push_back(std::string("write:") + (st ? "ok" : "fail") + ":" + hex(w.out, 64));
  YReader r{&w.out};
  nop::Deserializer<YReader*> des{&r};
  Vec back;
  auto rs = des.Read(&back);
  log.push_back(std::string("read:") + (rs ? "ok" : "fail") + ":" + vstr(back) + (back == v ? ":same" : ":DIFFERENT"));
}
// B2: table with nested containers (BoundedReader/Writer inside)
static void body_table(int k, Log& log) {
  Tab t;
  t.v = make_vec(k);
  t.s = std::string("s") + std::to_string(k);
  t.m = std::map<int, std::string>{{k, "k"}, {k + 10, std::string(3, (char)('A' + k))}};
  YWriter w;
  nop::Serializer<YWriter*> ser{&w};
  auto st = ser.Write(t);
  log.push_back(std::string("write:") + (st ? "ok" : "fail") + ":" + hex(w.out, 96));
  YReader r{&w.out};
  nop::Deserializer<YReader*> des{&r};
  Tab back;
  auto rs = des.Read(&back);
  std::string ms;
  if (rs && !back.m.empty()) for (auto& kv : back.m.get()) ms += std::to_string(kv.first) + "=" + kv.second + ",";
  log.push_back(std::string("read:") + (rs ? "ok" : "fail") + ":" + (rs && !back.v.empty() ? vstr(back.v.get()) : "-") + ":" + (rs && !back.s.empty() ? back.s.get() : "-") + ":" + ms);
}
// B3: Variant / Optional operations on elements whose constructors and destructors are scheduling points
struct YElem {
  int v;
  static thread_local int live;
  YElem() : v(0) { YP(); live++; }
  explicit YElem(int x) : v(x) { YP(); live++; }
  YElem(const YElem& o) : v(o.v) { YP(); live++; }
  YElem(YElem&& o) : v(o.v) { YP(); live++; o.v = -1; }
  YElem& operator=(const YElem& o) { YP(); v = o.v; return *this; }
  YElem& operator=(YElem&& o) { YP(); v = o.v; o.v = -1; return *this; }
  ~YElem() { YP(); live--; }
};
thread_local int YElem::live = 0;
static void body_values(int k, Log& log) {
  {
    nop::Variant<YElem, std::string> a, b;
    a = YElem{k * 10 + 1};
    log.push_back("a:" + std::to_string(a.index()) + ":" + std::to_string(a.get<YElem>()->v));
    b = a;
    a = std::string("s") + std::to_string(k);
    log.push_back("b:" + std::to_string(b.index()) + ":" + std::to_string(b.get<YElem>()->v) + " a:" + std::to_string(a.index()) + ":" + *a.get<std::string>());
    a = std::move(b);
    a.Become(1);
    nop::Optional<YElem> o{YElem{k * 10 + 2}}, p;
    p = std::move(o);
    log.push_back("o:" + std::to_string(o.empty()) + " p:" + std::to_string(p.empty()) + ":" + std::to_string(p.get().v) + " a:" + std::to_string(a.index()));
    p.clear();
  }
  log.push_back("live:" + std::to_string(YElem::live));
}
// B4: one RPC call on a private connection (yielding pipes)
struct CIf : nop::Interface<CIf> {
  NOP_INTERFACE("c19.CIf");
  NOP_METHOD(Concat, std::string(const std::string& a, int n));
  NOP_INTERFACE_API(Concat);
};
struct YPipeR {
  std::vector<uint8_t>* buf; size_t* pos; std::function<void()> on_dry;
  bool need(size_t n) { if (buf->size() - *pos < n && on_dry) on_dry(); return buf->size() - *pos >= n; }
  nop::Status<void> Ensure(std::size_t n) { YP(); return need(n) ? nop::Status<void>{} : nop::Status<void>{nop::ErrorStatus::ReadLimitReached}; }
  nop::Status<void> Read(std::uint8_t* b) { YP(); if (!need(1)) return nop::ErrorStatus::ReadLimitReached; *b = (*buf)[(*pos)++]; return {}; }
  template <typename T, typename E = nop::EnableIfArithmetic<T>>
  nop::Status<void> Read(T* b, T* e) {
    YP();
    size_t k = (e - b) * sizeof(T);
    if (!need(k)) return nop::ErrorStatus::ReadLimitReached;
    if (k) memcpy(b, buf->data() + *pos, k);
    *pos += k;
    return {};
  }
  nop::Status<void> Skip(std::size_t n) { YP(); if (!need(n)) return nop::ErrorStatus::ReadLimitReached; *pos += n; return {}; }
};
static void body_rpc(int k, Log& log) {
  std::vector<uint8_t> req, rep;
  size_t reqpos = 0, reppos = 0;
  YWriter cw, sw;
  auto binding = nop::BindInterface(CIf::Concat::Bind([&](const std::string& a, int n) {
    log.push_back("handler:" + a + ":" + std::to_string(n));
    std::string r;
    for (int i = 0; i < n; i++) r += a;
    return r;
  }));
  YPipeR sr{&cw.out, &reqpos, nullptr};
  nop::Serializer<YWriter*> sser{&sw};
  nop::Deserializer<YPipeR*> sdes{&sr};
  YPipeR cr{&sw.out, &reppos, [&]() {
              if (cw.out.size() > reqpos) {
                auto receiver = nop::MakeSimpleMethodReceiver(&sser, &sdes);
                auto st = binding(&receiver);
                log.push_back(std::string("served:") + (st ? "ok" : "fail"));
              }
            }};
  nop::Serializer<YWriter*> cser{&cw};
  nop::Deserializer<YPipeR*> cdes{&cr};
  auto sender = nop::MakeSimpleMethodSender(&cser, &cdes);
  std::string arg = std::string(1, (char)('x' + k)) + std::to_string(k);
  auto st = CIf::Concat::Invoke(&sender, arg, k + 2);
  log.push_back(std::string("invoke:") + (st ? st.get() : std::string("fail")) + ":left=" + std::to_string(cw.out.size() - reqpos) + "/" + std::to_string(sw.out.size() - reppos));
  (void)req; (void)rep;
}
// B4b: the same call through a member-function binding with the service instance as passthrough argument
struct Service {
  Log* log;
  int tag;
  std::string OnConcat(const std::string& a, int n) {
    YP();  // the handler is itself a scheduling point: its by-reference argument must still be this thread's
    log->push_back("handler#" + std::to_string(tag) + ":" + a + ":" + std::to_string(n));
    std::string r;
    for (int i = 0; i < n; i++) { r += a; YP(); }
    return r;
  }
};
static void body_rpc_method(int k, Log& log) {
  size_t reqpos = 0, reppos = 0;
  YWriter cw, sw;
  Service svc{&log, k};
  auto binding = nop::BindInterface<Service*>(CIf::Concat::Bind(&Service::OnConcat));
  YPipeR sr{&cw.out, &reqpos, nullptr};
  nop::Serializer<YWriter*> sser{&sw};
  nop::Deserializer<YPipeR*> sdes{&sr};
  YPipeR cr{&sw.out, &reppos, [&]() {
              if (cw.out.size() > reqpos) {
                auto receiver = nop::MakeSimpleMethodReceiver(&sser, &sdes);
                auto st = binding(&receiver, &svc);
                log.push_back(std::string("served:") + (st ? "ok" : "fail"));
              }
            }};
  nop::Serializer<YWriter*> cser{&cw};
  nop::Deserializer<YPipeR*> cdes{&cr};
  auto sender = nop::MakeSimpleMethodSender(&cser, &cdes);
  std::string arg = std::string(3, (char)('k' + k)) + std::to_string(k);
  auto st = CIf::Concat::Invoke(&sender, arg, k + 2);
  log.push_back(std::string("invoke:") + (st ? st.get() : std::string("fail")) + ":left=" + std::to_string(cw.out.size() - reqpos) + "/" + std::to_string(sw.out.size() - reppos));
}
// B5 / B6: ThreadLocal scripts. Every step is a scheduling point; values are thread-specific.
struct SlotA; struct SlotB;
static void body_tls_a(int k, Log& log) {
  const int v = 1000 * (k + 1);
  YP();
  nop::ThreadLocal<int, SlotA> a{v};
  YP();
  log.push_back("a.get=" + std::to_string(a.Get()));
  nop::ThreadLocal<int, SlotA> a2{v + 100};  // same (T, Slot): the first initialisation in this thread wins
  YP();
  log.push_back("a2.get=" + std::to_string(a2.Get()));
  a.Get() = v + 1;
  YP();
  log.push_back("a2.after-write=" + std::to_string(a2.Get()));
  nop::ThreadLocal<int, SlotB> b{v + 200};  // another slot with the same T: independent
  YP();
  log.push_back("b.get=" + std::to_string(b.Get()) + " a.get=" + std::to_string(a.Get()));
  a.Clear();
  YP();
  a.Initialize(v + 5);
  YP();
  log.push_back("a.after-clear-init=" + std::to_string(a.Get()) + " b=" + std::to_string(b.Get()));
  a.Initialize(v + 6);  // already initialised: no effect
  YP();
  log.push_back("a.after-second-init=" + std::to_string(a.Get()));
  a.Clear();
  b.Clear();
  YP();
}
static void body_tls_b(int k, Log& log) {
  const int v = 1000 * (k + 1) + 500;
  YP();
  nop::ThreadLocal<int, SlotB> b{v};  // same (T, Slot) pair as body A's b, in another thread
  YP();
  nop::ThreadLocal<std::string, SlotA> s{std::string("str") + std::to_string(k)};  // same slot tag, different T
  YP();
  log.push_back("b.get=" + std::to_string(b.Get()) + " s=" + s.Get());
  b.Get() += 7;
  s.Get() += "!";
  YP();
  nop::ThreadLocal<int, SlotA> a{v + 1};
  YP();
  log.push_back("b=" + std::to_string(b.Get()) + " s=" + s.Get() + " a=" + std::to_string(a.Get()));
  b.Clear();
  s.Clear();
  a.Clear();
  YP();
}

// B7: ThreadLocal of an element type whose constructor is a scheduling point: another thread can run its own
// first initialisation of the same (T, Slot) while this thread is still inside T's constructor
struct SlotC;
static void body_tls_ctor(int k, Log& log) {
  const int v = 100 * (k + 1);
  {
    nop::ThreadLocal<YElem, SlotC> a{v};
    YP();
    log.push_back("a.get=" + std::to_string(a.Get().v));
    nop::ThreadLocal<YElem, SlotC> a2{v + 1};  // first initialisation wins
    YP();
    log.push_back("a2.get=" + std::to_string(a2.Get().v));
    a.Clear();
    YP();
    a.Initialize(v + 2);
    YP();
    log.push_back("a.after-clear-init=" + std::to_string(a.Get().v));
    a.Clear();
  }
  log.push_back("live:" + std::to_string(YElem::live));
}


// B8: one value that passes through every kind of encoding (arrays, pair, tuple, unordered_map, optional, variant,
// result, enum, integral vector, wide string, floating point, C array, logical buffer, table with deleted entry)
enum class WErr { None, Bad, Worse };
enum class WEnum : std::uint16_t { A = 1, B = 300 };
struct WTab {
  nop::Entry<std::string, 1> a; nop::Entry<int, 2, nop::DeletedEntry> gone; nop::Entry<nop::Optional<Elem>, 70000> o;
  NOP_TABLE_NS("c19.WTab", WTab, a, gone, o);
};
struct Wide {
  std::array<Elem, 2> arr; std::pair<int, std::string> pr; std::tuple<int, std::string, double> tp;
  std::unordered_map<int, std::string> um; nop::Optional<std::string> op; nop::Optional<int> none;
  nop::Variant<int, std::string, Elem> var; nop::Result<WErr, std::string> res, err; WEnum en; std::vector<int> bin;
  std::u16string ws; float f; bool b; int carr[3]; std::array<std::int16_t, 4> lb; std::uint8_t lbn; WTab tab;
  std::vector<std::vector<std::string>> vv; std::map<std::string, std::vector<int>> mv;
  NOP_STRUCTURE(Wide, arr, pr, tp, um, op, none, var, res, err, en, bin, ws, f, b, carr, (lb, lbn), tab, vv, mv);
};
static Wide make_wide(int k) {
  Wide w;
  w.arr = {{Elem{k, std::string(1, (char)('a' + k)), k + 1}, Elem{k + 2, std::string(1, (char)('b' + k)), k + 3}}};
  w.pr = {k + 4, "p" + std::to_string(k)};
  w.tp = std::make_tuple(k + 5, "t" + std::to_string(k), k + 0.5);
  w.um = {{k + 6, "u" + std::to_string(k)}};
  w.op = "o" + std::to_string(k);
  w.var = Elem{k + 7, "v" + std::to_string(k), k + 8};
  w.res = std::string("r") + std::to_string(k);
  w.err = k % 2 ? WErr::Bad : WErr::Worse;
  w.en = k % 2 ? WEnum::A : WEnum::B;
  w.bin = {k + 9, k + 10, k + 11};
  w.ws = std::u16string(2, (char16_t)(0x100 + k));
  w.f = k + 0.25f;
  w.b = k % 2;
  w.carr[0] = k + 12; w.carr[1] = k + 13; w.carr[2] = k + 14;
  w.lb = {{(std::int16_t)(k + 15), (std::int16_t)(k + 16), 0, 0}};
  w.lbn = 2;
  w.tab.a = "ta" + std::to_string(k);
  w.tab.o = nop::Optional<Elem>{Elem{k + 17, "to" + std::to_string(k), k + 18}};
  w.vv = {{"x" + std::to_string(k), "y"}, {}, {"z" + std::to_string(k)}};
  w.mv = {{"m" + std::to_string(k), {k + 19, k + 20}}, {"n", {}}};
  return w;
}
static std::string estr(const Elem& e) { return std::to_string(e.a) + "/" + e.b + "/" + std::to_string(e.c); }
static std::string wstr(const Wide& w) {
  std::string s = estr(w.arr[0]) + "," + estr(w.arr[1]) + "|" + std::to_string(w.pr.first) + w.pr.second + "|" + std::to_string(std::get<0>(w.tp)) + std::get<1>(w.tp) +
                  std::to_string(std::get<2>(w.tp)) + "|";
  for (auto& kv : w.um) s += std::to_string(kv.first) + kv.second;
  s += "|" + (w.op ? w.op.get() : std::string("-")) + "|" + (w.none ? "SET" : "-") + "|" + std::to_string(w.var.index()) + ":" + (w.var.is<Elem>() ? estr(*w.var.get<Elem>()) : "?");
  s += "|" + (w.res ? w.res.get() : std::string("E")) + "|" + (w.err ? std::string("V") : std::to_string((int)w.err.error())) + "|" + std::to_string((int)w.en) + "|";
  for (int x : w.bin) s += std::to_string(x) + ",";
  s += "|";
  for (char16_t c : w.ws) s += std::to_string((int)c) + ",";
  s += "|" + std::to_string(w.f) + "|" + std::to_string(w.b) + "|" + std::to_string(w.carr[0]) + "," + std::to_string(w.carr[1]) + "," + std::to_string(w.carr[2]) + "|" + std::to_string(w.lbn) + ":" +
       std::to_string(w.lb[0]) + "," + std::to_string(w.lb[1]) + "|" + (w.tab.a ? w.tab.a.get() : std::string("-")) + "|" + (w.tab.o && w.tab.o.get() ? estr(w.tab.o.get().get()) : std::string("-")) + "|";
  for (auto& v : w.vv) { for (auto& x : v) s += x + ","; s += ";"; }
  s += "|";
  for (auto& kv : w.mv) { s += kv.first + "="; for (int x : kv.second) s += std::to_string(x) + ","; s += ";"; }
  return s;
}
static void body_wide(int k, Log& log) {
  Wide v = make_wide(k);
  YWriter w;
  nop::Serializer<YWriter*> ser{&w};
  auto st = ser.Write(v);
  log.push_back(std::string("write:") + (st ? "ok" : "fail") + ":" + hex(w.out, 400));
  log.push_back("size:" + std::to_string(ser.GetSize(v)));
  YReader r{&w.out};
  nop::Deserializer<YReader*> des{&r};
  Wide back{};
  back.var = std::string("prior");  // the destination starts in a different alternative
  back.res = std::string("prior");
  auto rs = des.Read(&back);
  log.push_back(std::string("read:") + (rs ? std::string("ok") : std::string("fail:") + rs.GetErrorMessage()) + ":" + wstr(back) + (wstr(back) == wstr(v) ? ":same" : ":DIFFERENT"));
}

// B9: the library's own readers and writers, each thread on its own objects: stream reader/writer over a stream buffer
// whose virtual calls are scheduling points, the buffer/pedantic/bounded classes on thread-private arrays; values,
// lengths and padding bytes depend on the thread index
struct YOutBuf : std::streambuf {
  std::string data;
  std::streamsize xsputn(const char* s, std::streamsize n) override { YP(); data.append(s, (size_t)n); return n; }
  int_type overflow(int_type c) override { YP(); if (c != traits_type::eof()) data.push_back((char)c); return c; }
};
struct YOStream : std::ostream {
  YOutBuf buf;
  YOStream() : std::ostream(nullptr) { rdbuf(&buf); }
};
struct YInBuf : std::streambuf {
  std::string data; size_t pos = 0;
  int_type underflow() override { YP(); return pos < data.size() ? traits_type::to_int_type(data[pos]) : traits_type::eof(); }
  int_type uflow() override { YP(); return pos < data.size() ? traits_type::to_int_type(data[pos++]) : traits_type::eof(); }
  std::streamsize xsgetn(char* s, std::streamsize n) override {
    YP();
    size_t k = std::min<size_t>((size_t)n, data.size() - pos);
    if (k) memcpy(s, data.data() + pos, k);
    pos += k;
    return (std::streamsize)k;
  }
};
struct YIStream : std::istream {
  YInBuf buf;
  explicit YIStream(const std::string& d) : std::istream(nullptr) { buf.data = d; rdbuf(&buf); }
};
static std::string shex(const std::string& s, size_t cap = 400) { return hex(reinterpret_cast<const uint8_t*>(s.data()), s.size(), cap); }
// between_ops: the class has no scheduling point of its own (plain memory), so one is placed between its operations
template <class W>
static std::string drive_writer(W& w, int k, bool between_ops) {
  std::string st;
  auto add = [&](nop::Status<void> s) { st += s ? "+" : "-"; if (between_ops) YP(); };
  const std::uint32_t words[3] = {0x01020304u + (std::uint32_t)k, 0xa0b0c0d0u + (std::uint32_t)k, (std::uint32_t)k};
  const std::uint16_t halves[2] = {(std::uint16_t)(0x1122 + k), (std::uint16_t)(0x3344 + k)};
  add(w.Prepare(8));
  add(w.Write((std::uint8_t)(0x40 + k)));
  add(w.Write(words, words + 3));
  add(w.Skip(5 + k, (std::uint8_t)(0xe0 + k)));  // padding byte and length differ per thread
  add(w.Write(halves, halves + 2));
  add(w.Skip(3));
  add(w.Skip(2 + k, (std::uint8_t)(0x11 * (k + 1))));
  add(w.Write((std::uint8_t)(0x50 + k)));
  return st;
}
template <class Rd>
static std::string drive_reader(Rd& r, int k, bool between_ops) {
  std::string st;
  auto add = [&](nop::Status<void> s) { st += s ? "+" : "-"; if (between_ops) YP(); };
  std::uint8_t b = 0; std::uint32_t words[3] = {0, 0, 0}; std::uint16_t halves[2] = {0, 0};
  add(r.Ensure(8));
  add(r.Read(&b));
  st += std::to_string(b) + ",";
  add(r.Read(words, words + 3));
  st += std::to_string(words[0]) + "," + std::to_string(words[2]) + ",";
  add(r.Skip(5 + k));
  add(r.Read(halves, halves + 2));
  st += std::to_string(halves[0]) + "," + std::to_string(halves[1]) + ",";
  add(r.Skip(3 + 2 + k));
  add(r.Read(&b));
  st += std::to_string(b) + ",";
  add(r.Skip(1));  // beyond the end for the exact-size readers
  return st;
}
static void body_libio(int k, Log& log) {
  std::string bytes;
  {
    nop::StreamWriter<YOStream> w;
    std::string st = drive_writer(w, k, false);
    bytes = w.stream().buf.data;
    log.push_back("stream-writer:" + st + ":" + shex(bytes));
  }
  {
    nop::StreamReader<YIStream> r{bytes};
    log.push_back("stream-reader:" + drive_reader(r, k, false));
  }
  {
    std::vector<uint8_t> buf(bytes.size(), 0xcc);
    nop::BufferWriter w{buf.data(), buf.size()};
    std::string st = drive_writer(w, k, true);
    log.push_back("buffer-writer:" + st + ":" + std::to_string(w.size()) + ":" + (std::string(buf.begin(), buf.end()) == bytes ? "same-bytes" : "DIFFERENT:" + hex(buf, 400)));
    nop::BufferReader r{buf.data(), buf.size()};
    log.push_back("buffer-reader:" + drive_reader(r, k, true) + ":" + std::to_string(r.remaining()));
  }
  {
    std::vector<uint8_t> buf(bytes.size(), 0xcc);
    nop::PedanticBufferWriter w{buf.data(), buf.size()};
    std::string st = drive_writer(w, k, true);
    log.push_back("pedantic-writer:" + st + ":" + std::to_string(w.size()) + ":" + (std::string(buf.begin(), buf.end()) == bytes ? "same-bytes" : "DIFFERENT:" + hex(buf, 400)));
    nop::PedanticBufferReader r{buf.data(), buf.size()};
    log.push_back("pedantic-reader:" + drive_reader(r, k, true) + ":" + std::to_string(r.remaining()));
  }
  {
    nop::StreamWriter<YOStream> inner;
    nop::BoundedWriter<nop::StreamWriter<YOStream>> w{&inner, bytes.size() + 5 + (size_t)k};
    std::string st = drive_writer(w, k, false);
    auto ps = w.WritePadding((std::uint8_t)(0x70 + k));
    log.push_back("bounded-writer:" + st + (ps ? "+" : "-") + ":" + std::to_string(w.size()) + ":" + shex(inner.stream().buf.data));
    nop::StreamReader<YIStream> rin{inner.stream().buf.data};
    nop::BoundedReader<nop::StreamReader<YIStream>> r{&rin, bytes.size() + 3};
    std::string rs = drive_reader(r, k, false);
    auto pr = r.ReadPadding();
    log.push_back("bounded-reader:" + rs + (pr ? "+" : "-") + ":" + std::to_string(r.size()) + ":" + std::to_string(rin.stream().buf.pos));
  }
}

// ---------------------------------------------------------------- B11: descriptors and signal dispositions (process-wide state the KERNEL owns)
// The fd reader/writer work on descriptor NUMBERS, and a number closed by one object is handed out again by the next
// open() anywhere in the process (POSIX: lowest free number). A small model of that table - and of the process-wide
// SIGPIPE disposition - sits behind --wrap=read/write/close/signal/sigaction: every call is a scheduling point, numbers are
// reused lowest-first, a write to a descriptor whose peer is gone "raises SIGPIPE" according to the modelled disposition.
// A second close of a number the object no longer owns, or library code that changes the disposition around its own
// writes, is invisible while one object runs alone and closes / disarms another thread's descriptor under the right schedule.
namespace vk {
constexpr int kBase = 700, kSlots = 24;
struct VFd { bool open = false, broken = false; std::string data; size_t rpos = 0; long serial = 0; };
static long next_serial = 0;  // identifies one open(): a NUMBER may be somebody else's descriptor by now
static std::mutex mu;
static VFd tab[kSlots];
extern "C" void app_sigpipe_handler(int) {}
typedef void (*handler_t)(int);
static handler_t sigpipe_disp = app_sigpipe_handler;
static thread_local Log* tl_log = nullptr;  // non-null while a body of this thread runs on the modelled kernel
struct InBody { explicit InBody(Log* l) { tl_log = l; } ~InBody() { tl_log = nullptr; } };
static bool mine(int fd) { return fd >= kBase && fd < kBase + kSlots; }
static int open_fd(const std::string& data, bool broken = false) {
  YP();
  std::lock_guard<std::mutex> l(mu);
  for (int i = 0; i < kSlots; i++)
    if (!tab[i].open) { tab[i] = VFd(); tab[i].open = true; tab[i].broken = broken; tab[i].data = data; tab[i].serial = ++next_serial; return kBase + i; }
  return -1;
}
static std::string contents(int fd) { std::lock_guard<std::mutex> l(mu); return mine(fd) ? tab[fd - kBase].data : std::string(); }
static long serial(int fd) { std::lock_guard<std::mutex> l(mu); return mine(fd) ? tab[fd - kBase].serial : -1; }
static bool is_open(int fd, long ser) { std::lock_guard<std::mutex> l(mu); return mine(fd) && tab[fd - kBase].open && tab[fd - kBase].serial == ser; }
static int open_count() { std::lock_guard<std::mutex> l(mu); int n = 0; for (auto& f : tab) n += f.open; return n; }
static void reset() { std::lock_guard<std::mutex> l(mu); for (auto& f : tab) f = VFd(); sigpipe_disp = app_sigpipe_handler; }
static const char* disp_name(handler_t h) { return h == SIG_IGN ? "SIG_IGN" : h == SIG_DFL ? "SIG_DFL" : h == app_sigpipe_handler ? "application-handler" : "other-handler"; }
}  // namespace vk
extern "C" {
ssize_t __real_read(int, void*, size_t);
ssize_t __real_write(int, const void*, size_t);
int __real_close(int);
vk::handler_t __real_signal(int, vk::handler_t);
int __real_sigaction(int, const struct sigaction*, struct sigaction*);
ssize_t __wrap_read(int fd, void* buf, size_t n) {
  if (!vk::mine(fd)) return __real_read(fd, buf, n);
  YP();
  std::lock_guard<std::mutex> l(vk::mu);
  vk::VFd& f = vk::tab[fd - vk::kBase];
  if (!f.open) { errno = EBADF; return -1; }
  size_t k = std::min(n, f.data.size() - f.rpos);
  if (k) memcpy(buf, f.data.data() + f.rpos, k);
  f.rpos += k;
  return (ssize_t)k;
}
ssize_t __wrap_write(int fd, const void* buf, size_t n) {
  if (!vk::mine(fd)) return __real_write(fd, buf, n);
  YP();
  std::lock_guard<std::mutex> l(vk::mu);
  vk::VFd& f = vk::tab[fd - vk::kBase];
  if (!f.open) { errno = EBADF; return -1; }
  if (f.broken) {
    if (vk::tl_log) vk::tl_log->push_back(std::string("kernel: SIGPIPE raised, disposition=") + vk::disp_name(vk::sigpipe_disp));
    errno = EPIPE;
    return -1;
  }
  f.data.append(static_cast<const char*>(buf), n);
  return (ssize_t)n;
}
int __wrap_close(int fd) {
  if (!vk::mine(fd)) return __real_close(fd);
  YP();
  std::lock_guard<std::mutex> l(vk::mu);
  vk::VFd& f = vk::tab[fd - vk::kBase];
  if (!f.open) { errno = EBADF; return -1; }
  f.open = false;
  return 0;
}
vk::handler_t __wrap_signal(int sig, vk::handler_t h) {
  if (!vk::tl_log || sig != SIGPIPE) return __real_signal(sig, h);
  YP();
  std::lock_guard<std::mutex> l(vk::mu);
  vk::handler_t old = vk::sigpipe_disp;
  vk::sigpipe_disp = h;
  return old;
}
int __wrap_sigaction(int sig, const struct sigaction* act, struct sigaction* old) {
  if (!vk::tl_log || sig != SIGPIPE) return __real_sigaction(sig, act, old);
  YP();
  std::lock_guard<std::mutex> l(vk::mu);
  if (old) { memset(old, 0, sizeof(*old)); old->sa_handler = vk::sigpipe_disp; }
  if (act) vk::sigpipe_disp = act->sa_handler;
  return 0;
}
}
struct FdMsg {
  std::uint8_t a;
  std::string b;
  NOP_STRUCTURE(FdMsg, a, b);
};
static const char* stname(const nop::Status<void>& s) {
  return s ? "ok" : s.error() == nop::ErrorStatus::ReadLimitReached ? "ReadLimitReached" : s.error() == nop::ErrorStatus::WriteLimitReached ? "WriteLimitReached"
           : s.error() == nop::ErrorStatus::IOError ? "IOError" : "other-error";
}
static void body_fdio(int k, Log& log) {
  vk::InBody in_body(&log);
  const std::uint8_t payload[3] = {(std::uint8_t)(0x10 + k), (std::uint8_t)(0x20 + k), (std::uint8_t)(0x30 + k)};
  std::string bytes;
  {
    // descriptor numbers depend on the schedule (lowest free number) and are never logged
    const int fd = vk::open_fd("");
    const long ser = vk::serial(fd);
    nop::FdWriter w{fd};
    std::string st;
    st += stname(w.Prepare(4)); st += ","; st += stname(w.Write((std::uint8_t)(0x40 + k))); st += ","; st += stname(w.Write(payload, payload + 3));
    bytes = vk::contents(fd);
    log.push_back("fd-writer:" + st + ":" + shex(bytes));
    w.Clear();  // closes the descriptor; its number is free again
    log.push_back(std::string("after-clear:") + (vk::is_open(fd, ser) ? "STILL-OPEN UNEXPECTED" : "closed"));
    const int fd2 = vk::open_fd(bytes);  // run alone this is the number just closed; under a schedule it may go to the other thread
    const long ser2 = vk::serial(fd2);
    nop::FdReader r{fd2};
    std::uint8_t b = 0, got[3] = {0, 0, 0};
    st = stname(r.Ensure(1)); st += ","; st += stname(r.Read(&b));
    log.push_back("fd-reader-1:" + st + ":" + std::to_string(b) + (b == 0x40 + k ? "" : " UNEXPECTED"));
    { nop::FdWriter w2{std::move(w)}; }  // a cleared writer owns nothing: neither the moved-to nor the moved-from object may close anything
    w.Clear();
    st = stname(r.Read(got, got + 3));
    log.push_back("fd-reader-2:" + st + ":" + hex(got, 3) + (memcmp(got, payload, 3) == 0 ? "" : " UNEXPECTED"));
    nop::FdReader r2;
    r2 = std::move(r);  // ownership moves; the moved-from reader closes nothing
    r.Clear();
    log.push_back(std::string("fd-reader-moved:") + stname(r2.Read(&b)) + (vk::is_open(fd2, ser2) ? "" : " CLOSED-EARLY UNEXPECTED"));
    const int rel = r2.Release();  // released: the caller closes it
    r2.Clear();
    log.push_back(std::string("released:") + (rel == fd2 && vk::is_open(fd2, ser2) ? "open" : "UNEXPECTED"));
    ::close(rel);
  }
  {
    // a struct through Serializer<FdWriter> / Deserializer<FdReader>, objects destroyed in between
    FdMsg m{(std::uint8_t)(7 + k), std::string(2 + (size_t)k, (char)('a' + k))}, back{0, ""};
    const int fd = vk::open_fd("");
    {
      nop::Serializer<nop::FdWriter> ser{fd};
      auto s = ser.Write(m);
      bytes = vk::contents(fd);
      log.push_back(std::string("serializer:") + stname(s) + ":" + shex(bytes));
    }
    const int fd2 = vk::open_fd(bytes);
    const long ser2 = vk::serial(fd2);
    {
      nop::Deserializer<nop::FdReader> des{fd2};
      auto s = des.Read(&back);
      log.push_back(std::string("deserializer:") + stname(s) + ":" + std::to_string(back.a) + "/" + back.b + (back.a == m.a && back.b == m.b ? "" : " UNEXPECTED"));
    }
    log.push_back(std::string("descriptors-after-scope:") + (vk::is_open(fd2, ser2) ? "LEFT-OPEN UNEXPECTED" : "closed"));
  }
  {
    // the peer of this descriptor is gone: the kernel raises SIGPIPE according to the process-wide disposition, which
    // belongs to the application (the harness installed its handler); the write itself fails with EPIPE
    const int fd = vk::open_fd("", true);
    nop::FdWriter bw{fd};
    auto s = bw.Write((std::uint8_t)0x99);
    log.push_back(std::string("broken-pipe-write:") + stname(s));
  }
}

// B10: every form of slot tag the library offers; each (T, Slot) pair is its own per-thread value
struct SlotTag;
template <class TL>
static void slot_step(TL& tl, int expect, const char* name, Log& log) {
  YP();
  log.push_back(std::string(name) + "=" + std::to_string((long)tl.Get()) + (tl.Get() == expect ? "" : " UNEXPECTED(" + std::to_string(expect) + ")"));
}
static void body_tls_slots(int k, Log& log) {
  const int v = 1000 * (k + 1);
  nop::ThreadLocal<int> s0{v + 0};
  nop::ThreadLocal<int, nop::ThreadLocalSlot<void, 1>> s1{v + 1};
  nop::ThreadLocal<int, nop::ThreadLocalSlot<SlotTag, 0>> s2{v + 2};
  nop::ThreadLocal<int, nop::ThreadLocalSlot<SlotTag, 1>> s3{v + 3};
  nop::ThreadLocal<int, nop::ThreadLocalTypeSlot<SlotTag>> s4{v + 4};
  nop::ThreadLocal<int, nop::ThreadLocalIndexSlot<0>> s5{v + 5};
  nop::ThreadLocal<int, nop::ThreadLocalIndexSlot<1>> s6{v + 6};
  nop::ThreadLocal<int, nop::ThreadLocalTypeSlot<void>> s7{v + 7};
  nop::ThreadLocal<long, nop::ThreadLocalSlot<SlotTag, 0>> s8{(long)v + 8};
  // first initialisation of each pair in this thread: every one holds its own value
  slot_step(s0, v + 0, "default", log); slot_step(s1, v + 1, "Slot<void,1>", log); slot_step(s2, v + 2, "Slot<Tag,0>", log);
  slot_step(s3, v + 3, "Slot<Tag,1>", log); slot_step(s4, v + 4, "TypeSlot<Tag>", log); slot_step(s5, v + 5, "IndexSlot<0>", log);
  slot_step(s6, v + 6, "IndexSlot<1>", log); slot_step(s7, v + 7, "TypeSlot<void>", log); slot_step(s8, v + 8, "long/Slot<Tag,0>", log);
  // a write through one is seen through none of the others
  s4.Get() = v + 44; s2.Get() += 20; s0.Get() = -v;
  slot_step(s0, -v, "default'", log); slot_step(s1, v + 1, "Slot<void,1>'", log); slot_step(s2, v + 22, "Slot<Tag,0>'", log);
  slot_step(s3, v + 3, "Slot<Tag,1>'", log); slot_step(s4, v + 44, "TypeSlot<Tag>'", log); slot_step(s5, v + 5, "IndexSlot<0>'", log);
  slot_step(s7, v + 7, "TypeSlot<void>'", log); slot_step(s8, v + 8, "long/Slot<Tag,0>'", log);
  // Clear + Initialize of one re-seeds only that one
  s2.Clear(); YP(); s2.Initialize(v + 222);
  s7.Clear(); YP(); s7.Initialize(v + 777);
  slot_step(s2, v + 222, "Slot<Tag,0>''", log); slot_step(s4, v + 44, "TypeSlot<Tag>''", log); slot_step(s0, -v, "default''", log);
  slot_step(s7, v + 777, "TypeSlot<void>''", log); slot_step(s8, v + 8, "long/Slot<Tag,0>''", log);
  s0.Clear(); s1.Clear(); s2.Clear(); s3.Clear(); s4.Clear(); s5.Clear(); s6.Clear(); s7.Clear(); s8.Clear();
}

struct Body { const char* name; void (*fn)(int, Log&); };
static const Body kBodies[] = {{"roundtrip", body_roundtrip}, {"table", body_table}, {"values", body_values}, {"rpc", body_rpc},
                               {"tlsA", body_tls_a}, {"tlsB", body_tls_b}, {"rpcMethod", body_rpc_method}, {"tlsCtor", body_tls_ctor}, {"wide", body_wide}, {"libio", body_libio}, {"tlsSlots", body_tls_slots}, {"fdio", body_fdio}};
static const int kNumBodies = 12;

static std::string join(const Log& l) { std::string s; for (auto& x : l) s += x + "\n"; return s; }

static void explore_set(const std::vector<int>& set, int bound) {
  std::string tag;
  for (int b : set) tag += std::string(tag.empty() ? "" : "+") + kBodies[b].name;
  // solo logs: body b run alone as thread index i (values depend on the thread index)
  std::vector<Log> solo(set.size());
  for (size_t i = 0; i < set.size(); i++) { vk::reset(); kBodies[set[i]].fn((int)i, solo[i]); }
  vk::reset();
  // the bodies check their own expectations even when running alone (round trip equality, slot independence)
  for (size_t i = 0; i < set.size(); i++)
    for (auto& line : solo[i])
      if (line.find("UNEXPECTED") != std::string::npos || line.find("DIFFERENT") != std::string::npos)
        R.viol(std::string("C19|sequential|") + kBodies[set[i]].name, "C19|" + tag + "|", "body " + std::string(kBodies[set[i]].name) + " run alone observes '" + line + "'");
  std::vector<Log> logs(set.size());
  std::vector<std::function<void()>> bodies;
  for (size_t i = 0; i < set.size(); i++) bodies.push_back([&, i] { kBodies[set[i]].fn((int)i, logs[i]); });
  ExploreStats st;
  std::set<std::string> outcomes;
  auto schedstr = [](const std::vector<int>& ch) { std::string s; for (int c : ch) s += (char)('0' + c); return s; };
  if (!A.only.empty()) {
    // replay one schedule: "C19|<tag>|<choices>"
    std::string pre = "C19|" + tag + "|";
    if (A.only.compare(0, pre.size(), pre) != 0) return;
    std::vector<int> prefix;
    for (char c : A.only.substr(pre.size())) prefix.push_back(c - '0');
    for (int rep = 0; rep < 2; rep++) {
      for (auto& l : logs) l.clear();
      vk::reset();
      Sched::get().run(prefix, bodies);
      if (vk::sigpipe_disp != vk::app_sigpipe_handler || vk::open_count() != 0)
        R.viol("C19|process-state|with:" + tag, A.only, std::string("after all threads finished the SIGPIPE disposition is ") + vk::disp_name(vk::sigpipe_disp) + " and " + std::to_string(vk::open_count()) + " modelled descriptors are still open");
      for (size_t i = 0; i < set.size(); i++)
        if (logs[i] != solo[i])
          R.viol(std::string("C19|interference|") + kBodies[set[i]].name, A.only, "thread " + std::to_string(i) + " (" + kBodies[set[i]].name + ") observed\n" + join(logs[i]) + "alone it observes\n" + join(solo[i]));
    }
    return;
  }
  explore_schedules(bodies, bound, [&] { for (auto& l : logs) l.clear(); vk::reset(); },
                    [&](const std::vector<int>& ch) {
                      R.counters["transitions"] += ch.size();
                      std::string oc;
                      // process-wide state the kernel keeps for the application must be what it was before the threads ran
                      if (vk::sigpipe_disp != vk::app_sigpipe_handler || vk::open_count() != 0)
                        R.viol("C19|process-state|with:" + tag, "C19|" + tag + "|" + schedstr(ch),
                               std::string("after all threads finished the SIGPIPE disposition is ") + vk::disp_name(vk::sigpipe_disp) + " (the application's handler was installed) and " +
                                   std::to_string(vk::open_count()) + " modelled descriptors are still open",
                               "{\"bodies\":" + jstr(tag) + ",\"schedule\":" + jstr(schedstr(ch)) + "}");
                      for (size_t i = 0; i < set.size(); i++) {
                        oc += std::to_string(fnv(join(logs[i]))) + ",";
                        if (logs[i] != solo[i]) {
                          // find the first differing entry
                          size_t d = 0;
                          while (d < logs[i].size() && d < solo[i].size() && logs[i][d] == solo[i][d]) d++;
                          R.viol(std::string("C19|interference|") + kBodies[set[i]].name + "|with:" + tag, "C19|" + tag + "|" + schedstr(ch),
                                 "thread " + std::to_string(i) + " (" + kBodies[set[i]].name + ") observed '" + (d < logs[i].size() ? logs[i][d] : "(missing)") +
                                     "', alone it observes '" + (d < solo[i].size() ? solo[i][d] : "(nothing)") + "'",
                                 "{\"bodies\":" + jstr(tag) + ",\"schedule\":" + jstr(schedstr(ch)) + "}");
                        }
                      }
                      outcomes.insert(oc);
                    },
                    &st, A.thorough() ? 3000000 : 400000);
  R.counters["schedules"] += st.schedules;
  R.counters["evaluations"] += st.schedules;
  R.counters["states"] += st.schedules;  // each explored schedule is one complete execution (state = schedule prefix tree leaf)
  R.distinct_direct += st.schedules;
  R.counters["max_points"] = std::max<uint64_t>(R.counters["max_points"], st.max_points);
  if (st.diverged) { printf("{\"t\":\"broken\",\"msg\":\"schedule replay diverged for %s\"}\n", tag.c_str()); }
  if (st.schedules >= (A.thorough() ? 3000000 : 400000)) { R.add("incomplete"); R.note("schedule cap hit for " + tag); }
  R.outcome(tag + ":" + std::to_string(outcomes.size()) + "-distinct-outcome(s)");
  if (outcomes.size() != 1 && R.violations == 0)
    R.viol("C19|outcome-depends-on-schedule|" + tag, "C19|" + tag + "|", "the combined observations differ between schedules although every thread matches its solo run");
  // determinism: replaying the last explored schedule reproduces its choices
  {
    std::vector<int> c1 = Sched::get().choices;
    for (auto& l : logs) l.clear();
    vk::reset();
    Sched::get().run(c1, bodies);
    if (Sched::get().choices != c1) printf("{\"t\":\"broken\",\"msg\":\"replay of a recorded schedule made different choices (%s)\"}\n", tag.c_str());
  }
}

static void free_run() {
  // visibility pass for ThreadSanitizer: yields are no-ops (scheduler inactive), 4 threads x N iterations
  std::atomic<int> bad{0};
  const int iters = A.thorough() ? 1000 : 200;
  std::vector<std::thread> th;
  for (int t = 0; t < 4; t++)
    th.emplace_back([&, t] {
      for (int it = 0; it < iters; it++)
        for (int b = 0; b < kNumBodies; b++) {
          Log solo, log;
          kBodies[b].fn(t, log);
          (void)solo;
          if (log.empty()) bad++;
        }
    });
  for (auto& x : th) x.join();
  // sequential reference: the logs of a free concurrent run must equal the logs of a sequential run
  R.counters["evaluations"] += 4 * iters * kNumBodies;
  R.counters["free_running_iterations"] += 4 * iters * kNumBodies;
  if (bad) R.viol("C19|free-run", "C19|free", "a body produced no observations");
}
static void free_run_compare() {
  // free-running threads must produce exactly the solo logs
  const int iters = 50;
  std::vector<std::vector<Log>> got(4, std::vector<Log>(kNumBodies));
  std::atomic<int> mism{0};
  std::vector<std::thread> th;
  std::vector<std::vector<Log>> solo(4, std::vector<Log>(kNumBodies));
  for (int t = 0; t < 4; t++)
    for (int b = 0; b < kNumBodies; b++) kBodies[b].fn(t, solo[t][b]);
  for (int t = 0; t < 4; t++)
    th.emplace_back([&, t] {
      for (int it = 0; it < iters; it++)
        for (int b = 0; b < kNumBodies; b++) {
          Log log;
          kBodies[b].fn(t, log);
          if (log != solo[t][b]) mism++;
        }
    });
  for (auto& x : th) x.join();
  R.counters["evaluations"] += 4 * iters * kNumBodies;
  if (mism) R.viol("C19|free-run-interference", "C19|free", std::to_string((int)mism) + " free-running body executions differ from their sequential result");
}

int main(int argc, char** argv) {
  A = Args::parse(argc, argv);
  R.only = A.only;
  bool free_mode = false;
  for (auto& r : A.rest) if (r == "--free") free_mode = true;
  if (free_mode) {
    free_run();
    free_run_compare();
    R.nontrivial_direct(2);
    R.sample("{\"mode\":\"free-running, 4 threads, ThreadSanitizer\"}");
    R.finish();
    return R.violations ? 1 : 0;
  }
  // negative control: a body with a deliberately shared scratch variable must be caught by the explorer
  {
    static int shared_scratch;
    std::vector<Log> logs(2), solo(2);
    auto racy = [&](int k, Log& log) { shared_scratch = k; YP(); log.push_back(std::to_string(shared_scratch)); };
    racy(0, solo[0]);
    racy(1, solo[1]);
    std::vector<std::function<void()>> bodies = {[&] { racy(0, logs[0]); }, [&] { racy(1, logs[1]); }};
    ExploreStats st;
    long bad = 0;
    explore_schedules(bodies, 1, [&] { logs[0].clear(); logs[1].clear(); }, [&](const std::vector<int>&) { if (logs[0] != solo[0] || logs[1] != solo[1]) bad++; }, &st);
    if (!bad) { printf("{\"t\":\"broken\",\"msg\":\"scheduler control (shared scratch) not flagged\"}\n"); return 2; }
    R.add("negative_controls_flagged");
  }
  const int bound = A.thorough() ? 3 : 2;
  std::vector<std::vector<int>> sets;
  // "wide" shares template instantiations only with itself and with the two other serialisation bodies
  for (int a = 0; a < kNumBodies; a++)
    for (int b = a; b < kNumBodies; b++)
      if (a < 8 && b < 8) sets.push_back({a, b});
  sets.push_back({8, 8});
  sets.push_back({0, 8});
  sets.push_back({1, 8});
  sets.push_back({9, 9});  // the library's readers/writers share code only with themselves
  sets.push_back({10, 10});
  sets.push_back({4, 10});
  sets.push_back({4, 4, 5});
  sets.push_back({11, 11});  // descriptor numbers and signal dispositions are process-wide
  sets.push_back({9, 11});
  if (A.thorough()) { sets.push_back({11, 11, 11}); sets.push_back({0, 0, 0}); sets.push_back({4, 5, 5}); sets.push_back({0, 1, 4}); }
  for (size_t i = 0; i < sets.size(); i++) {
    if ((int)(i % A.nshards) != A.shard) continue;
    const bool wide_set = sets[i].back() >= 8;  // ~540 scheduling points: bound 3 would exceed the schedule cap
    explore_set(sets[i], (sets[i].size() > 2 || wide_set) ? std::min(bound, 2) : bound);
  }
  R.sample("{\"bodies\":\"roundtrip+roundtrip\",\"schedule\":\"0000100000000100...\",\"meaning\":\"choice index among enabled threads at each scheduling point; 0 = keep running\"}");
  R.finish();
  return R.violations ? 1 : 0;
}
