// Spike: preemption-bounded cooperative scheduler over harness-owned yield points (reader calls).
// Not framework code; validates DESIGN.md section 4.7 / C19 against a p14-style mutant.
#include <condition_variable>
#include <cstdio>
#include <cstring>
#include <functional>
#include <limits>
#include <array>
#include <mutex>
#include <string>
#include <thread>
#include <vector>
#include <nop/serializer.h>
#include <nop/structure.h>
#include <nop/utility/pedantic_buffer_writer.h>

struct Point { int nenabled; bool running_enabled; };
struct Sched {
  std::mutex m; std::condition_variable cv;
  int current = -1; std::vector<int> state;  // 0 not started/runnable, 1 finished
  std::vector<int> prefix, choices; std::vector<Point> points; bool active = false;
  std::vector<int> enabled(int running) { std::vector<int> e; if (running >= 0 && state[running] == 0) e.push_back(running);
    for (int i = 0; i < (int)state.size(); i++) if (i != running && state[i] == 0) e.push_back(i); return e; }
  int decide(int running) {  // called with lock held
    auto e = enabled(running); if (e.empty()) return -1;
    size_t pos = choices.size(); int c = pos < prefix.size() ? prefix[pos] : 0;
    if (c >= (int)e.size()) { fprintf(stderr, "replay divergence\n"); abort(); }
    choices.push_back(c); points.push_back({(int)e.size(), running >= 0 && state[running] == 0}); return e[c]; }
  void yield(int tid) { if (!active) return; std::unique_lock<std::mutex> l(m); int next = decide(tid);
    if (next != tid) { current = next; cv.notify_all(); cv.wait(l, [&] { return current == tid; }); } }
  void start_wait(int tid) { std::unique_lock<std::mutex> l(m); cv.wait(l, [&] { return current == tid; }); }
  void finish(int tid) { std::unique_lock<std::mutex> l(m); state[tid] = 1; int next = decide(tid); current = next; cv.notify_all(); }
  void run(const std::vector<int>& pre, std::vector<std::function<void(int)>> bodies) {
    prefix = pre; choices.clear(); points.clear(); state.assign(bodies.size(), 0); active = true; current = -1;
    std::vector<std::thread> th; for (int i = 0; i < (int)bodies.size(); i++) th.emplace_back([&, i] { start_wait(i); bodies[i](i); finish(i); });
    { std::unique_lock<std::mutex> l(m); current = decide(-1); cv.notify_all(); }
    for (auto& t : th) t.join(); active = false; }
};
static Sched S; static thread_local int g_tid = -1;

struct YieldReader {  // bounds-checked reader whose every primitive is a scheduling point
  const std::uint8_t* p; std::size_t n, i = 0;
  nop::Status<void> Ensure(std::size_t k) { S.yield(g_tid); return n - i < k ? nop::Status<void>{nop::ErrorStatus::ReadLimitReached} : nop::Status<void>{}; }
  nop::Status<void> Read(std::uint8_t* b) { S.yield(g_tid); if (i >= n) return nop::ErrorStatus::ReadLimitReached; *b = p[i++]; return {}; }
  nop::Status<void> Read(void* b, void* e) { S.yield(g_tid); std::size_t k = (std::uint8_t*)e - (std::uint8_t*)b; if (k > n - i) return nop::ErrorStatus::ReadLimitReached; if (k) memcpy(b, p + i, k); i += k; return {}; }
  nop::Status<void> Skip(std::size_t k) { S.yield(g_tid); if (k > n - i) return nop::ErrorStatus::ReadLimitReached; i += k; return {}; }
};
struct Elem { int a; std::string b; int c; bool operator==(const Elem& o) const { return a == o.a && b == o.b && c == o.c; } NOP_STRUCTURE(Elem, a, b, c); };
using Vec = std::vector<Elem>;
static std::vector<std::uint8_t> enc(const Vec& v) { std::vector<std::uint8_t> buf(256); nop::Serializer<nop::PedanticBufferWriter> s{buf.data(), buf.size()}; s.Write(v); buf.resize(s.writer().size()); return buf; }

int main() {
  Vec vals[2] = {{{1, "aa", 11}, {2, "bb", 12}}, {{7, "xxxx", 71}, {8, "yyyy", 72}}};
  std::vector<std::uint8_t> bytes[2] = {enc(vals[0]), enc(vals[1])};
  Vec got[2]; bool ok[2];
  auto body = [&](int t) { g_tid = t; YieldReader r{bytes[t].data(), bytes[t].size()}; nop::Deserializer<YieldReader*> d{&r}; Vec v; ok[t] = (bool)d.Read(&v); got[t] = v; };
  long schedules = 0, violations = 0, maxpoints = 0; const int bound = 2; std::vector<int> first_bad;
  std::function<void(std::vector<int>)> explore = [&](std::vector<int> pre) {
    S.run(pre, {body, body}); schedules++; auto pts = S.points; auto ch = S.choices; maxpoints = std::max<long>(maxpoints, pts.size());
    for (int t = 0; t < 2; t++) if (!ok[t] || !(got[t] == vals[t])) { violations++; if (first_bad.empty()) first_bad = ch; break; }
    int cost = 0; std::vector<int> costs(ch.size());
    for (size_t i = 0; i < ch.size(); i++) { costs[i] = cost; if (pts[i].running_enabled && ch[i] != 0) cost++; }
    for (size_t i = pre.size(); i < ch.size(); i++) for (int alt = 1; alt < pts[i].nenabled; alt++) {
      int c = costs[i] + (pts[i].running_enabled ? 1 : 0); if (c > bound) continue;
      std::vector<int> np(ch.begin(), ch.begin() + i); np.push_back(alt); explore(np); } };
  explore({});
  printf("schedules=%ld max_points=%ld violations=%ld first_bad_len=%zu\n", schedules, maxpoints, violations, first_bad.size());
  // determinism: replay the first schedule twice
  S.run({}, {body, body}); auto c1 = S.choices; S.run(c1, {body, body}); printf("replay identical=%d\n", c1 == S.choices);
  return violations ? 1 : 0;
}
